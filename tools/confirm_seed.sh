#!/bin/bash
# Confirms a seeded change delivered by a sub-agent in /tmp/seed/<ID>/out and stores it under /verif/seeded/.
#   tools/confirm_seed.sh <ID> <n>      (n = 1, 2, 3 ...; SEED_ROOT overrides /tmp/seed)
# Confirms: patch applies; workspace builds; existing suite passes with it; demo fails with it and passes without.
set -u
ID=$1; N=$2
ROOT=${SEED_ROOT:-/tmp/seed}
WT=$ROOT/$ID/wt; OUT=$ROOT/$ID/out
export CARGO_TARGET_DIR=$WT/target CARGO_NET_OFFLINE=true
cd "$WT" || exit 3
git checkout -q -- . ; rm -rf vibrato/tests
git apply --check "$OUT/patch$N.diff" || { echo "CONFIRM-FAIL $ID-$N patch does not apply"; exit 1; }
git apply "$OUT/patch$N.diff"
flags=""
if grep -q verif_hooks "$OUT/demo$N.rs"; then flags="--cfg vibrato_verif"; fi
feat=""
if grep -q "trainer\|mecab" "$OUT/demo$N.rs"; then feat="--features train"; fi
suite=$(cargo test --workspace --offline 2>&1 | grep -E "^test result" | awk '{p+=$4; f+=$6} END {print p" passed "f" failed"}')
mkdir -p vibrato/tests && cp "$OUT/demo$N.rs" vibrato/tests/demo.rs
RUSTFLAGS="$flags" cargo test -p vibrato --test demo --offline $feat >$ROOT/$ID/demo_with_$N.log 2>&1; with=$?
git checkout -q -- . 
RUSTFLAGS="$flags" cargo test -p vibrato --test demo --offline $feat >$ROOT/$ID/demo_without_$N.log 2>&1; without=$?
rm -rf vibrato/tests
echo "CONFIRM $ID-$N suite_with_patch: $suite | demo_with_patch exit=$with (want !=0) | demo_without exit=$without (want 0)"
if [ "$with" -ne 0 ] && [ "$without" -eq 0 ] && [[ "$suite" == "107 passed 0 failed" ]]; then
  D=/verif/seeded/$ID-$N; mkdir -p "$D"
  cp "$OUT/patch$N.diff" "$D/patch.diff"; cp "$OUT/demo$N.rs" "$D/demo.rs"
  echo "CONFIRMED $ID-$N -> $D"
else
  echo "NOT-CONFIRMED $ID-$N"; exit 1
fi
