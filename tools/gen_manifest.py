#!/usr/bin/env python3
"""Generates /verif/MANIFEST.json from the table below (keeps it valid at all times)."""
import json, os, subprocess, sys

HERE = os.path.dirname(os.path.dirname(os.path.abspath(__file__)))

def repo_commits(prefix):
    out = subprocess.run(["git", "-C", "/repo", "log", "--format=%h %s"], capture_output=True, text=True).stdout
    return [l.split()[0] for l in out.splitlines() if l.split(" ", 1)[1].startswith(prefix)]

# id -> (level category, technique, level text, level note, design ref)
CHECKS = {
    "C01": ("exploration",
            "property-based testing (proptest): generated dictionaries x options x sentences judged by a validity predicate over every token accessor",
            "Held on every generated (dictionary, options, sentence) triple: ~80k tokenizations per quick run over matrix/raw/dual connectors, user lexicons, id mappings, astral/U+0000/U+FFFF characters. A for-all-inputs claim can only be explored, not proved, with this technique.",
            "Trusts the harness's independent reference (char classes, dictionary rows by word index). Domain excludes: categories without unk.def entries and range lines covering U+0000 (open known findings), costs overflowing i32. Termination by watchdog.",
            "5/C01"),
    "C02": ("exploration",
            "property-based testing (proptest) with a reference-model oracle: independent Viterbi recurrence over the dumped candidate nodes and over a reference lattice",
            "Held on ~115k generated (dictionary, options, sentence) triples per quick run: every lattice node's prefix minimum, the EOS minimum (incl. the connection to id 0), each token's running total_cost and the reported path's total equal an independent recomputation; 5% of cases have the EOS connection deciding the winner, 10% have ties.",
            "Costs come from the harness's reference dictionary and connectors (naive sums). Optimality is judged over the implementation's own candidate nodes read through the lattice-dump hook; candidate correctness is C03. i32 overflow regime not explored.",
            "5/C02"),
    "C03": ("exploration",
            "property-based testing (proptest) with a reference-model oracle: the literal candidate rule re-implemented naively, compared as multisets per position through the lattice dump",
            "Held on ~115k generated cases per quick run with every sub-rule (invoke suppression, grouping, bound edge run-1 in {max,max+1}, length prefixes, duplicate-run skip, single-char fallback, multi-category chaining, multiple unk entries) occurring in >5% of cases.",
            "Reference char classes follow 'last covering range line wins, DEFAULT otherwise'. Excluded by construction: range lines covering U+0000 (astral characters take U+0000's class: open known finding), categories without unk entries. ignore_space only in the C12-precondition domain.",
            "5/C03"),
    "C04": ("exploration",
            "stateful property-based testing (proptest): generated operation histories interpreted against the model 'tokens == tokens of a fresh worker'; multi-threaded stress with generated per-thread histories; compile-time Send+Sync probe",
            "Held on ~8k sequential histories (1-30 operations incl. shorter-after-longer, empty, repeated tokenize, counter updates) and ~1.9k concurrent runs (4 and 16 workers over one shared tokenizer) per quick run; ~138k tokenizations compared exactly with fresh-worker results.",
            "The harness does not own the thread schedule (no synchronisation primitives exist in the code to model): the concurrency clause is a stress test plus a type-level check, and a race behind unsafe code would be found only probabilistically.",
            "5/C04"),
    "C05": ("exploration",
            "property-based testing (proptest): byte-level round trip + differential testing of D against read(write(D)) under generated operation sequences; image exchange between the portable and the AVX2 build",
            "Held on 1.5k generated dictionaries per quick run (all connector kinds, +-user lexicon, +-mapping, 0-5 later operations with a second round trip at a generated position): identical bytes, lengths, tokens, all connection costs; 2x60 images exchanged between builds.",
            "Both sides start from the same image. Arbitrary corruption of image bodies is outside the claim. Cross-build clause needs a CPU with AVX2 (skipped and reported otherwise).",
            "5/C05"),
    "C06": ("exploration",
            "metamorphic property-based testing (proptest): mapped vs unmapped dictionary under generated permutations and operation orders; negative generation of malformed mappings",
            "Held on 3k generated (dictionary, permutation pair(s), step order) cases and 4k malformed mappings per quick run: tokens equal modulo pi, cost'(pi_R r, pi_L l) == cost(r,l) for all pairs incl. id 0, for matrix/raw/dual, user lexicon before/after mapping, two mappings, write/read in between.",
            "Orientation of mapping lists as in the map tool. Ties tolerated only when the reference lattice proves several optimal paths.",
            "5/C06"),
    "C08": ("exploration",
            "differential and stateful property-based testing (proptest): user lexicon vs extended system lexicon through the lattice dump; load/replace/clear histories against a last-writer-wins model; negative generation of invalid user CSVs",
            "Held on 4k (dictionary, user rows) cases x sentences x options for candidate/optimum equivalence, 1.5k load/replace/clear histories (identical observations and images), 3k invalid user CSVs (Err, no panic) per quick run, on unmapped and mapped dictionaries.",
            "Candidate order differs between the two lexicon layouts, so token sequences are compared only under a unique optimum.",
            "5/C08"),
    "C07": ("exploration",
            "property-based testing (proptest) with a reference-model oracle (naive feature-pair sums), bounded-exhaustive scorer lookups per generated key set, differential tokenization raw/dual/materialised matrix, and a portable<->AVX2 exchange of generated models",
            "Held on 4k generated bigram models per quick run (K in 1..20 incl. <8, 8, 9-16, >16; ragged rows, shared strings, BOS/EOS lines, clamp regime) for EVERY id pair, 3k scorer key sets with every key of the universe looked up (3.7M lookups), and 2x300 models whose costs were recomputed in the other build.",
            "Excluded and named: the ''/'' line (cost(0,0) over padded lanes; accessor-only finding), a feature literally named '*' in bigram.cost, duplicate cost lines. Dual is compared only where the reference proves nothing can have been clamped.",
            "5/C07"),
    "C09": ("fault_enumeration",
            "fault enumeration: every strict prefix of generated dictionary images and every single-byte substitution of the magic, plus property-based generation (proptest) of cuts, near-miss headers and random streams",
            "Per quick run: 2 generated images with EVERY strict prefix read (exhaustive for those images), 6 more images with boundary-focused prefixes, all 21x255 magic substitutions for each of the 8 images, 1.5k generated faults; ~0.9M reads, all rejected with Err.",
            "Covers truncation and foreign/near-miss magic only, as the property states; corruption of image bodies is not asserted (crawdad's deserializer panics on some corrupted bodies).",
            "5/C09"),
    "C10": ("exploration",
            "property-based testing (proptest) with structured mutation: format-aware edits of valid generated file sets; oracles: totality (no panic), acceptance => safe tokenization, and a strict reference char.def parser for silent mis-assignment",
            "Held on 20k mutated file sets per quick run (24% accepted, 76% rejected with an error value) and 4k arbitrary mapping sequences; ~300k tokenizations of accepted dictionaries; char.def interpretation compared with the reference on 4.6k accepted dictionaries.",
            "Open known finding excluded by construction and counted: accepted category without unk.def entries. Clause (3) is conditional on the reference parser being able to read the mutated file.",
            "5/C10"),
    "C11": ("exploration",
            "property-based testing (proptest), round trip by construction: logical rows -> rendered CSV -> dictionary -> word_feature / lattice candidates",
            "Held on 6k generated CSVs per quick run (quoted surfaces, verbatim quoted feature cells, homographs, nested prefixes, empty surfaces, ids up to 65534, i16 extremes, blank lines incl. trailing, missing final newline; system and user lexicon).",
            "LF only; no line breaks inside quoted fields; no U+0000 in surfaces.",
            "5/C11"),
    "C12": ("exploration",
            "metamorphic property-based testing (proptest): re-spaced variants of one sentence, cross-checked against the reference Viterbi with gap skipping",
            "Held on 6k generated (dictionary, chunk list, 4 re-spacings) cases per quick run; 40% have an unknown token next to a gap, 30% a non-zero connection cost across a gap; spaces-only sentences and missing SPACE also checked.",
            "Precondition built into the generator (SPACE exclusive to the space characters, no surface contains a space).",
            "5/C12"),
    "C13": ("exploration",
            "stateful property-based testing (proptest): the reorder tool's loop over generated line histories against an independent recount in the reference lattice, then reorder->map->tokenize",
            "Held on 5k generated histories of 0-12 lines per quick run with the id lists verified after every prefix (35k verifications), incl. empty first/inner lines, repeated lines, no lines; the final lists were always accepted by map and preserved tokenization.",
            "Default tokenizer options as in the tool. Probabilities to 1e-12 relative.",
            "5/C13"),
}

NOT_YET = "check not built yet in this session (work in progress; see DESIGN.md section 5)"

def main():
    props = [json.loads(l) for l in open(os.path.join(HERE, "properties.jsonl"))]
    checks = []
    na = []
    for p in props:
        pid = p["id"]
        if pid in CHECKS:
            cat, tech, text, note, ref = CHECKS[pid]
            checks.append({
                "property_id": pid,
                "quick_cmd": f"./check {pid} quick",
                "thorough_cmd": f"./check {pid} thorough",
                "evidence_file": f"/verif/evidence/{pid}.json",
                "replay_cmd_template": f"./check {pid} --replay {{path}}",
                "engine": "vverif",
                "level_claimed": {"category": cat, "text": text, "design_ref": f"DESIGN.md section {ref}"},
                "level_note": note,
                "technique": tech,
            })
        else:
            na.append({"property_id": pid, "reason": NOT_YET})
    hooks = repo_commits("verif hooks")
    manifest = {
        "version": 1,
        "setup_cmd": "./check --setup",
        "hooks": {
            "guard": "--cfg vibrato_verif",
            "enable": "RUSTFLAGS=\"--cfg vibrato_verif\" cargo build --release --offline (done by ./check; the harness crate /verif/harness depends on /repo/vibrato by path)",
            "baseline_off_cmd": "cd /repo && cargo test --workspace --no-fail-fast --offline",
            "source_commits": hooks,
            "add_only": True,
        },
        "engines": [
            {"name": "vverif", "path": "/verif/harness",
             "serves_properties": sorted(CHECKS.keys()),
             "kind_free_text": "Rust crate: proptest 1.11 TestRunner driven from the binary `vcheck` (16 shards, fixed seeds from VERIF_SEED), independent reference model, JSON replay files, evidence writer"},
        ],
        "checks": checks,
        "not_applicable": na,
        "notes": "Known findings: /verif/known_findings.json (open entries print KNOWN-FINDING and are excluded from generators by construction; fixed entries are regression replays that must pass). Exit 2 = inconclusive (build failure, watchdog), never a violation.",
    }
    if not na:
        del manifest["not_applicable"]
    json.dump(manifest, open(os.path.join(HERE, "MANIFEST.json"), "w"), indent=1)
    print("MANIFEST.json written:", len(checks), "checks,", len(na), "not_applicable")

if __name__ == "__main__":
    main()
