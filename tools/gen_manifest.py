#!/usr/bin/env python3
"""Generates /verif/MANIFEST.json from the table below (keeps it valid at all times)."""
import json, os, subprocess, sys

HERE = os.path.dirname(os.path.dirname(os.path.abspath(__file__)))

def repo_commits(prefix):
    out = subprocess.run(["git", "-C", "/repo", "log", "--format=%h %s"], capture_output=True, text=True).stdout
    return [l.split()[0] for l in out.splitlines() if l.split(" ", 1)[1].startswith(prefix)]

# id -> (level category, technique, level text, level note, design ref)
CHECKS = {
    "C01": ("exploration",
            "property-based testing (proptest): generated dictionaries x options x sentences judged by a validity predicate over every token accessor",
            "Held on every generated (dictionary, options, sentence) triple: ~280k tokenizations per quick run (22k generated dictionaries x options x sentences, incl. 200-character and 20,000-character sentences) over matrix/raw/dual connectors, user lexicons, id mappings, astral/U+0000/U+FFFF characters. A for-all-inputs claim can only be explored, not proved, with this technique. A stress sub-check adds 20 000-character sentences and sentences with 70 000 skipped space characters; char.def files declare up to 254 categories (SPACE possibly beyond the 18 assignable ones) and options are put in place through generated setter histories.",
            "Trusts the harness's independent reference (char classes, dictionary rows by word index). Domain excludes: categories without unk.def entries and range lines covering U+0000 (open known findings), costs overflowing i32. Termination by watchdog.",
            "5/C01"),
    "C02": ("exploration",
            "property-based testing (proptest) with a reference-model oracle: independent Viterbi recurrence over the dumped candidate nodes and over a reference lattice",
            "Held on ~330k generated (dictionary, options, sentence) triples per quick run (generated dictionaries incl. id mappings, plus the repository's own resource dictionary): every lattice node's prefix minimum, the EOS minimum (incl. the connection to id 0), each token's running total_cost and the reported path's total equal an independent recomputation; 5% of cases have the EOS connection deciding the winner, 10% have ties; the reference Viterbi is itself cross-checked by brute-force enumeration of all segmentations on ~220k short sentences per run; a scale sub-check expands 48 (thorough: 800) compact cases into dictionaries with 65533-131075 nodes ending at one position or that many unknown entries (the 16-bit boundaries of node indices and word ids).",
            "Costs come from the harness's reference dictionary and connectors (naive sums). Optimality is judged over the implementation's own candidate nodes read through the lattice-dump hook; candidate correctness is C03. i32 overflow regime not explored.",
            "5/C02"),
    "C03": ("exploration",
            "property-based testing (proptest) with a reference-model oracle: the literal candidate rule re-implemented naively, compared as multisets per position through the lattice dump",
            "Held on ~330k generated cases per quick run (generated dictionaries and the repository's resource dictionary) with every sub-rule (invoke suppression, grouping, bound edge run-1 in {max,max+1} incl. MeCab's default max=24, length prefixes, duplicate-run skip, single-char fallback, multi-category chaining, multiple unk entries) occurring in >5% of cases; plus the scale sub-check of C02 (65533-131075 lexicon rows or unknown entries at one position) under the candidate oracle.",
            "Reference char classes follow 'last covering range line wins, DEFAULT otherwise'. Excluded by construction: range lines covering U+0000 (astral characters take U+0000's class: open known finding), categories without unk entries. ignore_space only in the C12-precondition domain.",
            "5/C03"),
    "C04": ("exploration",
            "stateful property-based testing (proptest): generated operation histories interpreted against the model 'tokens == tokens of a fresh worker'; multi-threaded stress with generated per-thread histories; compile-time Send+Sync probe",
            "Held on ~8k sequential histories (1-30 operations incl. shorter-after-longer, empty, repeated tokenize, counter updates) and ~1.9k concurrent runs (4 and 16 workers over one shared tokenizer, each history repeated 12 times) per quick run; ~1M tokenizations compared exactly with fresh-worker results; the concurrent runs are repeated under ThreadSanitizer (no data race on any explored schedule). A long-history sub-check (640 cases per quick run, ~38M tokenizations) puts 65532-65538, 131068-131074 or 252-258 filler tokenizations between two sentences on one worker and compares every one of them with a fresh worker.",
            "The harness does not own the thread schedule (no synchronisation primitives exist in the code to model): the concurrency clause is a stress test plus a type-level check plus a ThreadSanitizer pass; a logic race through atomics is found only probabilistically.",
            "5/C04"),
    "C05": ("exploration",
            "property-based testing (proptest): byte-level round trip + differential testing of D against read(write(D)) under generated operation sequences; image exchange between the portable and the AVX2 build",
            "Held on 1.5k generated dictionaries per quick run (all connector kinds, +-user lexicon, +-mapping, 0-5 later operations with a second round trip at a generated position): identical bytes, lengths, tokens, all connection costs; 2x60 images exchanged between builds. A scale sub-check round-trips dictionaries whose posting lists hold 252-259, 510-514 or 65533-65539 homographs (system and user lexicon, word-id offsets up to 66 000).",
            "Both sides start from the same image. Arbitrary corruption of image bodies is outside the claim. Cross-build clause needs a CPU with AVX2 (skipped and reported otherwise).",
            "5/C05"),
    "C06": ("exploration",
            "metamorphic property-based testing (proptest): mapped vs unmapped dictionary under generated permutations and operation orders; negative generation of malformed mappings",
            "Held on 8k generated (dictionary, permutation pair(s), step order) cases and 10k malformed mappings per quick run: tokens equal modulo pi, cost'(pi_R r, pi_L l) == cost(r,l) for all pairs incl. id 0, for matrix/raw/dual, user lexicon before/after mapping, two mappings, write/read in between. An extreme-size sub-check remaps matrix connectors with 65535 (the largest announceable), 65530-65534, 32767-32769 and 255-257 ids on one side under six histories.",
            "Orientation of mapping lists as in the map tool. Ties tolerated only when the reference lattice proves several optimal paths.",
            "5/C06"),
    "C08": ("exploration",
            "differential and stateful property-based testing (proptest): user lexicon vs extended system lexicon through the lattice dump; load/replace/clear histories against a last-writer-wins model; negative generation of invalid user CSVs",
            "Held on 10k (dictionary, user rows) cases x sentences x options for candidate/optimum equivalence, 3k load/replace/clear histories (identical observations and images), 8k invalid user CSVs (Err, no panic) per quick run, on unmapped and mapped dictionaries. Half of the cases run on id-mapped dictionaries (user lexicon loaded before one mapping, before two successive mappings, or after the mapping; the same mappings on both sides).",
            "Candidate order differs between the two lexicon layouts, so token sequences are compared only under a unique optimum.",
            "5/C08"),
    "C07": ("exploration",
            "property-based testing (proptest) with a reference-model oracle (naive feature-pair sums), bounded-exhaustive scorer lookups per generated key set, differential tokenization raw/dual/materialised matrix, and a portable<->AVX2 exchange of generated models",
            "Held on 10k generated bigram models per quick run (K in 1..20 incl. <8, 8, 9-16, >16; ragged rows, shared strings, BOS/EOS lines, clamp regime) for EVERY id pair, 6k scorer key sets with every key of the universe looked up (7.5M lookups), 2x300 models whose costs were recomputed in the other build, and libFuzzer campaigns on the bigram builder in the portable and the AVX2 (unsafe gather code under ASan) build. Wide sub-checks use scorers with up to 40 000 entries and keys up to 70 000 and models with up to 300 ids, 33 templates and 6000 cost lines; a boundary regime draws costs from {-32768, +-32767, +-16384, ...} and the dual connector is asserted exact wherever every partial sum fits 16 bits (so -32768 itself is inside).",
            "Excluded and named: a feature literally named '*' in bigram.cost, duplicate cost lines. Dual is compared only where the reference proves nothing can have been clamped.",
            "5/C07"),
    "C09": ("fault_enumeration",
            "fault enumeration: every strict prefix of generated dictionary images and every single-byte substitution of the magic, plus property-based generation (proptest) of cuts, near-miss headers and random streams",
            "Per quick run: 2 generated images with EVERY strict prefix read (exhaustive for those images), 6 more images with boundary-focused prefixes, all 21x255 magic substitutions for each of the 8 images, 1.5k generated faults, a libFuzzer campaign; ~0.95M reads, all rejected with Err. A third of the cut faults are placed within 12 bytes of a multiple of 2^9..2^22 (reader block sizes) on images of up to several MiB.",
            "Covers truncation and foreign/near-miss magic only, as the property states; corruption of image bodies is not asserted (crawdad's deserializer panics on some corrupted bodies).",
            "5/C09"),
    "C10": ("exploration",
            "property-based testing (proptest) with structured mutation: format-aware edits of valid generated file sets; oracles: totality (no panic), acceptance => safe tokenization, and a strict reference char.def parser for silent mis-assignment",
            "Held on 60k mutated file sets per quick run (24% accepted, 76% rejected with an error value), 10k sequences of 1-3 mappings with a user lexicon before/after, and three libFuzzer campaigns (matrix builder, bigram builders, char.def against the strict reference parser; 216k executions); ~0.9M tokenizations of accepted dictionaries; char.def interpretation compared with the reference on ~14k accepted dictionaries. The value vocabulary includes integers at the limits of u16/u32/u64/usize/i64 (decimal and hexadecimal) and cells of 4097 and 9000 bytes.",
            "Open known finding excluded by construction and counted: accepted category without unk.def entries. Clause (3) is conditional on the reference parser being able to read the mutated file.",
            "5/C10"),
    "C11": ("exploration",
            "property-based testing (proptest), round trip by construction: logical rows -> rendered CSV -> dictionary -> word_feature / lattice candidates",
            "Held on 30k generated CSVs per quick run (quoted surfaces, verbatim quoted feature cells, homographs, nested prefixes, empty surfaces, ids up to 65534, i16 extremes, blank lines incl. trailing, missing final newline; system and user lexicon). A scale sub-check builds lexicons with 252-259, 510-514 or 65533-65539 rows sharing one surface.",
            "LF only; no line breaks inside quoted fields; no U+0000 in surfaces.",
            "5/C11"),
    "C12": ("exploration",
            "metamorphic property-based testing (proptest): re-spaced variants of one sentence, cross-checked against the reference Viterbi with gap skipping",
            "Held on 20k generated (dictionary, chunk list, 4 re-spacings) cases per quick run; 40% have an unknown token next to a gap, 30% a non-zero connection cost across a gap; spaces-only sentences and missing SPACE also checked. About one space run in 128 has 255, 256, 257, 65535, 65536, 65537, 70000 or 131072 characters.",
            "Precondition built into the generator (SPACE exclusive to the space characters, no surface contains a space).",
            "5/C12"),
    "C13": ("exploration",
            "stateful property-based testing (proptest): the reorder tool's loop over generated line histories against an independent recount in the reference lattice, then reorder->map->tokenize",
            "Held on 10k generated histories of 0-12 lines per quick run (connectors with up to 48 ids per side) with the id lists verified after every prefix (70k verifications), plus 40 pipelines through the real compile/reorder/map/tokenize binaries, incl. empty first/inner lines, repeated lines, no lines; the final lists were always accepted by map and preserved tokenization. A scale sub-check feeds sentences with more than 65535 nodes starting at one position (homographs, three start positions, unknown entries) to the same recount oracle.",
            "Default tokenizer options as in the tool. Probabilities to 1e-12 relative.",
            "5/C13"),
    "C14": ("exploration",
            "property-based testing (proptest) with a reference-model oracle: generated training configurations are trained, and the emitted files are compared field by field with an independent merge of the raw model read through a hook",
            "Held on 4k generated training configurations per quick run (each incl. a CRF training run): row order, surfaces (incl. commas/quotes), verbatim features, class ids, every cost == trunc(-w*32767/max|w|), every matrix cell and the header, user rows (0,0,0 vs explicit), compilation of the emitted files; 78% of cases have virtual edges, 48% user rows given as 0,0,0. The training generator includes surfaces and cells of about 2 KiB whose first comma or quote sits at byte 2040-2054, two-digit column indices and rows of 11-22 cells.",
            "Small models only. Trusts the hook's plain-data view of the raw model (weights, index tables, feature-id lists). Open known finding excluded by construction and counted: empty bigram weight table + user lexicon (panic inside rucrf).",
            "5/C14"),
    "C15": ("exploration",
            "stateful property-based testing (proptest): differential testing of the in-memory model against read_model(write_model(M)) under generated operation histories",
            "Held on 3k generated (model, history) cases per quick run: after every generation all seven output files agree (bigram.cost as a multiset), generating twice agrees, write_model reports its length; 36% add a user lexicon after the round trip. Half of the cases use templates without literal prefix and empty cells (empty and '*' feature strings).",
            "User entries are not part of the model file, so they are added after the round trip on both sides (as dictgen does).",
            "5/C15"),
    "C16": ("exploration",
            "differential property-based testing (proptest) with a derived tolerance: dictionaries compiled from matrix.def and from bigram.left/right/cost (raw and dual) compared on every id pair",
            "Held on 3k trained models per quick run (K = 1-10 templates: <8, 8, >8), ~370k id pairs incl. BOS/EOS rows and columns: |bigram - matrix| <= K+1 and identical id counts for raw and dual connectors.",
            "Tolerance derived (one truncation per template plus one for the matrix cell). Small models only. The dual connector is asserted only where every partial sum of the emitted costs fits 16 bits (C07's proviso; its template split depends on hash order, so a clamped pair can differ from process to process). Two open known findings (feature values that are literally '*'/empty, or contain '/') are excluded by construction and demonstrated by committed probes.",
            "5/C16"),
    "C17": ("exploration",
            "property-based testing (proptest) with a reference-model oracle (first matching rule in file order) plus bounded-exhaustive enumeration of a small rule/feature space",
            "Held on 40k generated rule lists x 4 feature lists per quick run (prefix sharing forced, wildcard/literal/alternative interleaving incl. partially overlapping groups, absent $n) and on ALL 27,930 rule lists of <=3 rules x <=2 positions over {*,a,b,(a|b),(a|c)} against ALL 13 feature lists over {a,b,c} (exhaustive for that sub-space). A large-rule-list sub-check (21840-21850, 32760-32775, 65530-65545 and 40000-70000 rules, i.e. across 2^16 and 2^17 trie nodes) probes 600 feature lists per list against a linear first-match scan.",
            "Goes through the rewrite.def parser (section headers, decoy rules in the other sections) via a hook. '$0' and non-numeric references are outside the documented grammar.",
            "5/C17"),
    "C18": ("exploration",
            "property-based testing (proptest) with a reference-model oracle: MeCab template expansion at function level (id bijection over call histories) and at dictionary level (context tuples vs connection ids and bigram.left/right lines after training)",
            "Held on 8k generated template sets x histories of 1-40 extraction calls and 3k trained models (incl. a model reload before the user lexicon) per quick run: ids None exactly where the reference yields no feature, equal strings <=> equal ids, listed tuples equal expansions except '*' for dropped features, equal tuples share ids.",
            "Sharing is checked among training-time rows and among user rows separately (zero-weight features are dropped from training-time rows only).",
            "5/C18"),
    "C19": ("exploration",
            "property-based testing (proptest): round trip render -> parse -> write -> parse over generated corpora with negative cases, and closure of the parser under the tokenizer's MeCab-style output",
            "Held on 40k generated corpora (incl. surface 'EOS', empty features, dropped empty sentences, missing final newline, 10k malformed variants incl. invalid UTF-8 rejected), 8k dictionaries x options whose tokenizer output (incl. tokens with surface 'EOS') parsed back to exactly the tokens, 40 pipelines through the real compile/tokenize/split binaries and an 80k-execution libFuzzer campaign, per quick run. 3% of the format cases stretch one surface or feature to 255...131072 bytes; some tokenizer-output cases tokenize a run of 66 000 characters.",
            "Inputs exclude tab and every Unicode line-break character (conservative reading). The CLI binaries are exercised on 40 (quick) / 600 (thorough) generated pipelines.",
            "5/C19"),
    "C20": ("exploration",
            "property-based testing (proptest) with a reference-model oracle: generated MeCab model descriptions converted, compiled with the raw connector and compared on every pair of non-zero ids (accessor and two-token probe sentences)",
            "Held on 20k generated model descriptions per quick run (1-8 templates with optional references, 1-8 ids per side, 4 cost factors, unrealisable (one- and two-sided)/zero/truncating weights, BOS/EOS lines), ~370k id pairs, 80k black-box probes; ~2k error variants rejected. Column indices include 9-12, 19-21 and 100; id rows have 1-4 and occasionally 11-22 cells.",
            "Reference expansion written from the property statement (not from the code's crossed file naming), so a single left/right swap changes costs and is detected.",
            "5/C20"),
}

NOT_YET = "check not built yet in this session (work in progress; see DESIGN.md section 5)"

def main():
    props = [json.loads(l) for l in open(os.path.join(HERE, "properties.jsonl"))]
    checks = []
    na = []
    for p in props:
        pid = p["id"]
        if pid in CHECKS:
            cat, tech, text, note, ref = CHECKS[pid]
            checks.append({
                "property_id": pid,
                "quick_cmd": f"./check {pid} quick",
                "thorough_cmd": f"./check {pid} thorough",
                "evidence_file": f"/verif/evidence/{pid}.json",
                "replay_cmd_template": f"./check {pid} --replay {{path}}",
                "engine": "vverif",
                "level_claimed": {"category": cat, "text": text, "design_ref": f"DESIGN.md section {ref}"},
                "level_note": note,
                "technique": tech,
            })
        else:
            na.append({"property_id": pid, "reason": NOT_YET})
    hooks = repo_commits("verif hooks")
    manifest = {
        "version": 1,
        "setup_cmd": "./check --setup",
        "hooks": {
            "guard": "--cfg vibrato_verif",
            "enable": "RUSTFLAGS=\"--cfg vibrato_verif\" cargo build --release --offline (done by ./check; the harness crate /verif/harness depends on /repo/vibrato by path)",
            "baseline_off_cmd": "cd /repo && cargo test --workspace --no-fail-fast --offline",
            "source_commits": hooks,
            "add_only": True,
        },
        "engines": [
            {"name": "vverif", "path": "/verif/harness",
             "serves_properties": sorted(CHECKS.keys()),
             "kind_free_text": "Rust crate: proptest 1.11 TestRunner driven from the binary `vcheck` (16 shards, fixed seeds from VERIF_SEED), independent reference model, JSON replay files, evidence writer; built portable, with AVX2 and with ThreadSanitizer"},
            {"name": "fuzz", "path": "/verif/fuzz",
             "serves_properties": ["C07", "C09", "C10", "C19"],
             "kind_free_text": "cargo-fuzz project (libFuzzer, ASan): build_matrix_dict, build_bigram_dict (also built with AVX2), chardef_reference, corpus_roundtrip, dict_read; oracles inside the targets; campaigns with fixed -runs on fresh corpora seeded from fuzz/seeds, driven by ./check"},
        ],
        "checks": checks,
        "not_applicable": na,
        "notes": "Known findings: /verif/known_findings.json (open entries print KNOWN-FINDING and are excluded from generators by construction; fixed entries are regression replays that must pass). Exit 2 = inconclusive (build failure, watchdog), never a violation.",
    }
    if not na:
        del manifest["not_applicable"]
    json.dump(manifest, open(os.path.join(HERE, "MANIFEST.json"), "w"), indent=1)
    print("MANIFEST.json written:", len(checks), "checks,", len(na), "not_applicable")

if __name__ == "__main__":
    main()
