#!/usr/bin/env python3
"""Runs every property-preserving patch under seeded/preserving against ALL twenty quick checks (scratch copies,
three patches in parallel) and records which checks raise an alarm in seeded/PRESERVING.json: every list must be empty.
usage: tools/run_preserving.py [patch-name ...]"""
import json, os, subprocess, sys, glob, concurrent.futures as cf

V = os.path.dirname(os.path.dirname(os.path.abspath(__file__)))
IDS = [f"C{i:02d}" for i in range(1, 21)]
WHAT = {
    "ok_tie_lt": "search_min_node keeps the first minimal predecessor (`<` instead of `<=`): only ties resolve differently",
    "ok_rev_preds": "predecessors scanned in reverse order: only ties resolve differently",
    "ok_sys_before_user": "system lexicon offered before the user lexicon at each position: candidate order only",
    "ok_capacity": "per-boundary node vectors created without initial capacity",
    "ok_base1": "double-array base search starts at 1 instead of 0: different scorer layout, same lookups",
    "ok_sorted_costs": "bigram.cost lines written in sorted order",
    "ok_magic06": "model magic bumped to 'VibratoTokenizer 0.6' (a format version bump by the maintainers)",
}


def describe(name):
    if name in WHAT:
        return WHAT[name]
    # sub-agent patches: first heading line of the matching section of its NOTES file, if any
    agent, ok = name.split("-")
    notes = f"{V}/seeded/preserving/{agent}-NOTES.md"
    if os.path.exists(notes):
        for line in open(notes, errors="replace"):
            if ok in line and line.lstrip().startswith("#"):
                return line.strip("# \n")
    return "property-preserving change written by a sub-agent (see the NOTES file next to it)"


def run(name, slot):
    patch = f"{V}/seeded/preserving/{name}.diff"
    env = dict(os.environ, MUT_DIR=f"/root/scratch/pres{slot}")
    out = subprocess.run([V + "/tools/mutcheck.sh", patch] + IDS, capture_output=True, text=True, errors="replace", env=env).stdout
    if "patch failed" in out:
        return name, {"what": describe(name), "error": "patch does not apply to the current tree"}
    alarms, inconclusive, pending = [], [], []
    for line in out.splitlines():
        if line.startswith("REASON"):
            pending.append(line[:300])
        if line.startswith("== "):
            c = line.split()[1]
            code = line.split("exit=")[1].strip()
            if code == "1":
                alarms.append({"check": c, "first_reason": pending[0] if pending else ""})
            elif code != "0":
                inconclusive.append(c)
            pending = []
    r = {"what": describe(name), "alarms": alarms}
    if inconclusive:
        r["inconclusive"] = inconclusive
    return name, r


def main():
    names = sys.argv[1:] or sorted(os.path.basename(p)[:-5] for p in glob.glob(V + "/seeded/preserving/*.diff"))
    path = V + "/seeded/PRESERVING.json"
    results = json.load(open(path)) if os.path.exists(path) else {}
    # three sequential chains, one scratch directory each
    results_new = {}
    def chain(slot):
        out = {}
        for i, n in enumerate(names):
            if i % 3 == slot:
                k, v = run(n, slot)
                out[k] = v
                print(k, "alarms:", [a["check"] for a in v.get("alarms", [])], "inconclusive:", v.get("inconclusive", []), v.get("error", ""), flush=True)
        return out
    with cf.ThreadPoolExecutor(max_workers=3) as ex:
        for out in ex.map(chain, range(3)):
            results_new.update(out)
    results.update(results_new)
    json.dump(results, open(path, "w"), indent=1, ensure_ascii=False)


if __name__ == "__main__":
    main()
