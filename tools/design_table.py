#!/usr/bin/env python3
"""Regenerates the per-property rows of the table in DESIGN.md §12 from evidence/*.json (columns 2 and 3);
the 'deviations' column is kept as it is."""
import json, re, os
V = os.path.dirname(os.path.dirname(os.path.abspath(__file__)))
s = open(V + "/DESIGN.md").read()
def fmt(n):
    return f"{n:,}".replace(",", " ")
for i in range(1, 21):
    pid = f"C{i:02d}"
    ev = json.load(open(f"{V}/evidence/{pid}.json"))
    cov = ev["coverage"]
    parts = []
    for sc in cov.get("sub_checks", []):
        name = sc.get("sub")
        if "cases_requested" in sc:
            parts.append(f"{name}: {fmt(sc['cases_requested'])} cases")
        elif "images" in sc:
            parts.append(f"{name}: {fmt(sc['images'])} images/models")
        elif "pipelines" in sc:
            parts.append(f"{name}: {fmt(sc['pipelines'])} pipelines")
        elif "runs_requested" in sc:
            parts.append(f"{name}: {fmt(sc['runs_requested'])} fuzz runs")
        elif "rule_lists" in sc:
            parts.append(f"{name}: {fmt(sc['rule_lists'])} rule lists")
        elif "evaluations" in sc:
            parts.append(f"{name}: {fmt(sc['evaluations'])} evaluations")
        else:
            parts.append(str(name))
    m = re.search(rf"^\| {pid} \|(.*?)\|(.*?)\|(.*)\|\s*$", s, re.M)
    if not m:
        print("row not found", pid); continue
    row = f"| {pid} | {'; '.join(parts)} | {fmt(cov['evaluations'])} evaluations |{m.group(3)}|"
    s = s[:m.start()] + row + s[m.end():]
open(V + "/DESIGN.md", "w").write(s)
print("DESIGN.md §12 table refreshed")
