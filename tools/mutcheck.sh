#!/bin/bash
# Sensitivity run: applies a patch to a scratch copy of /repo/vibrato and runs checks against it.
#   tools/mutcheck.sh <patch.diff> <ID> [<ID> ...]
# Evidence and replays of these runs go to /root/scratch/mut-out (never into /verif/evidence).
set -u
PATCH="$(readlink -f "$1")"; shift
M=/root/scratch/mut
rm -rf "$M"; mkdir -p "$M" /root/scratch/mut-out
cp -r /repo/vibrato "$M/vibrato"
( cd "$M" && patch -s -p1 < "$PATCH" ) || { echo "patch failed"; exit 3; }
cd "$(dirname "$0")/.."
for id in "$@"; do
  VERIF_REPO="$M" VERIF_TARGET=/root/scratch/mut-target VERIF_EVIDENCE_DIR=/root/scratch/mut-out \
    VERIF_REPLAY_OUT=/root/scratch/mut-out ./check "$id" "${MUT_TIER:-quick}" | grep -E "^(VIOLATION|SUMMARY|INCONCLUSIVE|REASON|KNOWN)" | cut -c1-400
  echo "== $id exit=${PIPESTATUS[0]}"
done
rm -rf "$M"
