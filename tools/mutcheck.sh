#!/bin/bash
# Sensitivity run: applies a patch to a scratch copy of /repo/vibrato and runs checks against it.
#   tools/mutcheck.sh <patch.diff> <ID> [<ID> ...]
# Evidence and replays of these runs go to /root/scratch/mut-out (never into /verif/evidence).
set -u
PATCH="$(readlink -f "$1")"; shift
M="${MUT_DIR:-/root/scratch/mut}"
OUT="${MUT_DIR:-/root/scratch/mut}-out"
rm -rf "$M"; mkdir -p "$M" "$OUT"
# the whole workspace (without build output) so that patches to the CLI crates apply as well
rsync -a --exclude target --exclude .git /repo/ "$M/"
( cd "$M" && patch -s -p1 < "$PATCH" ) || { echo "patch failed"; exit 3; }
cd "$(dirname "$0")/.."
for id in "$@"; do
  for seed in ${MUT_SEEDS:-${VERIF_SEED:-0}}; do
    VERIF_SEED="$seed" VERIF_REPO="$M" VERIF_TARGET="$M-target" VERIF_EVIDENCE_DIR="$OUT" \
      VERIF_REPLAY_OUT="$OUT" ./check "$id" "${MUT_TIER:-quick}" | grep -E "^(VIOLATION|SUMMARY|INCONCLUSIVE|REASON|KNOWN)" | cut -c1-400
    echo "== $id seed=$seed exit=${PIPESTATUS[0]}"
  done
done
rm -rf "$M"
