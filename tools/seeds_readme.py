#!/usr/bin/env python3
"""Writes /verif/seeded/README.md from meta.json files, RESULTS.json and PRESERVING.json."""
import json, glob, os
V=os.path.join(os.path.dirname(os.path.dirname(os.path.abspath(__file__))),"seeded")
res=json.load(open(V+"/RESULTS.json")) if os.path.exists(V+"/RESULTS.json") else {}
out=["# Seeded changes and what detects them","",
"Each directory `<ID>-<n>/` holds a change to daac-tools/vibrato written by a fresh sub-agent that was given only the property text and a scratch worktree",
"(`patch.diff`), its own demonstration (`demo.rs`: fails with the change, passes without it) and `meta.json`. Every change compiles and passes the",
"existing 103 unit tests + 4 doctests; each was confirmed with `tools/confirm_seed.sh` before being kept. `tools/run_seeds.py` applies each patch to a",
"scratch copy and runs the quick tier (seed 0) of the checks named in `meta.json`; the outcome is recorded in `RESULTS.json`.","",
"| seed | property | change | needs | detected by (quick tier) |","|---|---|---|---|---|"]
for d in sorted(glob.glob(V+"/C*")):
    m=json.load(open(d+"/meta.json")); sid=m["id"]
    r=res.get(sid,{})
    det=", ".join(r.get("detected_by",[])) or ("**not detected**" if r else "not run yet")
    missed=[c for c,v in r.get("checks",{}).items() if not v["detected"]]
    if missed and r.get("detected_by"): det+=f" (silent: {', '.join(missed)})"
    out.append(f"| {sid} | {m['property']} | {m['change']} | {m['needs_to_manifest']} | {det} |")
p=V+"/PRESERVING.json"
if os.path.exists(p):
    pr=json.load(open(p))
    out+=["","## Property-preserving changes (every check must stay silent)","",
          "Edits that change behaviour only where the properties leave it unspecified (`preserving/ok_*.diff`: hand-made; `preserving/agentN-okM.diff`: written by eight sub-agents that saw the property texts, three each,",
          "with their reasoning in `preserving/agentN-NOTES.md`); `tools/run_preserving.py` runs each against all twenty quick checks.","",
          "| change | what it alters | checks that raised an alarm |","|---|---|---|"]
    for k,v in sorted(pr.items()):
        al=[a["check"] if isinstance(a,dict) else a for a in v.get("alarms",[])]
        extra=""
        if v.get("inconclusive"): extra+=f" (inconclusive: {', '.join(v['inconclusive'])})"
        if v.get("error"): extra+=f" ({v['error']})"
        out.append(f"| {k} | {v['what']} | {(', '.join(al) or 'none')+extra} |")
open(V+"/README.md","w").write("\n".join(out)+"\n")
print("written", len(out), "lines")
