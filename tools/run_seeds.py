#!/usr/bin/env python3
"""Runs every seeded change under /verif/seeded against the checks named in its meta.json (scratch copy,
quick tier) and records which checks raise a VIOLATION.  usage: tools/run_seeds.py [ID-N ...]"""
import json, os, subprocess, sys, glob, time
V=os.path.dirname(os.path.dirname(os.path.abspath(__file__)))
ids=sys.argv[1:] or sorted(os.path.basename(d) for d in glob.glob(V+"/seeded/C*"))
results=json.load(open(V+"/seeded/RESULTS.json")) if os.path.exists(V+"/seeded/RESULTS.json") else {}
head=subprocess.run(["git","-C","/repo","rev-parse","--short","HEAD"],capture_output=True,text=True,errors="replace").stdout.strip()
for sid in ids:
    meta=json.load(open(f"{V}/seeded/{sid}/meta.json"))
    t0=time.time()
    out=subprocess.run([V+"/tools/mutcheck.sh",f"{V}/seeded/{sid}/patch.diff"]+meta["checks_to_run"],capture_output=True,text=True,errors="replace").stdout
    det={}
    cur=None
    reasons={}
    if "patch failed" in out:
        results[sid]={"error":"patch does not apply to the current tree","repo_head":head}
        print(sid,"PATCH FAILED"); continue
    pending=[]
    for line in out.splitlines():
        if line.startswith("REASON"): pending.append(line[:300])
        if line.startswith("== "):
            c=line.split()[1]; code=line.split("exit=")[1].strip()
            det[c]={"exit":int(code),"detected":code=="1"}
            if pending: det[c]["first_reason"]=pending[0]
            pending=[]
    inconclusive=[c for c,v in det.items() if v["exit"] not in (0,1)]
    results[sid]={"property":meta["property"],"inconclusive":inconclusive,"repo_head":head,"tier":"quick","seed":0,"checks":det,
                  "detected_by":[c for c,v in det.items() if v["detected"]],"wall_s":round(time.time()-t0,1)}
    print(sid,results[sid]["detected_by"],flush=True)
    json.dump(results,open(V+"/seeded/RESULTS.json","w"),indent=1,ensure_ascii=False)
