#!/usr/bin/env python3
"""Detection of every seeded change by the check of its own property across several VERIF_SEEDs
(quick tier). Writes /verif/seeded/RESULTS_SEEDS.json.  usage: tools/run_seeds_multi.py "1 2 3" [ID-N ...]"""
import json, os, subprocess, sys, glob
V=os.path.dirname(os.path.dirname(os.path.abspath(__file__)))
seeds=sys.argv[1]
ids=sys.argv[2:] or sorted(os.path.basename(d) for d in glob.glob(V+"/seeded/C*"))
path=V+"/seeded/RESULTS_SEEDS.json"
res=json.load(open(path)) if os.path.exists(path) else {}
for sid in ids:
    meta=json.load(open(f"{V}/seeded/{sid}/meta.json"))
    own=meta["property"]
    if sid=="C14-3": own="C15"   # C14's oracle is, correctly, silent on C14-3 (see DESIGN 8)
    env=dict(os.environ, MUT_SEEDS=seeds, MUT_DIR="/root/scratch/mut5")
    out=subprocess.run([V+"/tools/mutcheck.sh",f"{V}/seeded/{sid}/patch.diff",own],capture_output=True,text=True,errors="replace",env=env).stdout
    r=res.setdefault(sid,{"check":own,"by_seed":{}})
    for line in out.splitlines():
        if line.startswith("== "):
            parts=line.split()
            seed=parts[2].split("=")[1]; code=parts[3].split("=")[1]
            r["by_seed"][seed]={"0":"silent","1":"detected"}.get(code,"inconclusive")
    print(sid,own,r["by_seed"],flush=True)
    json.dump(res,open(path,"w"),indent=1)
