#![no_main]
// C10: SystemDictionaryBuilder::from_readers is total, and acceptance implies safe use.
// Input: lex.csv ==== matrix.def ==== char.def ==== unk.def ==== user.csv (separator "\n====\n").
use libfuzzer_sys::fuzz_target;
include!("common.rs");

const LEX: &[u8] = b"a,0,0,1,x\n\xe4\xba\xac\xe9\x83\xbd,1,1,5,y\nab,1,0,-3,\"q,1\"\n";
const MATRIX: &[u8] = b"2 2\n0 1 5\n1 0 -7\n";
const CHARDEF: &[u8] = b"DEFAULT 0 1 0\nSPACE 0 1 0\nALPHA 1 1 2\n0x0020 SPACE\n0x0061..0x007A ALPHA\n";
const UNK: &[u8] = b"DEFAULT,0,0,100,*\nSPACE,0,0,10,*\nALPHA,1,1,50,*\n";
const USER: &[u8] = b"";

fuzz_target!(|data: &[u8]| {
    let p = split_payloads(data, &[LEX, MATRIX, CHARDEF, UNK, USER]);
    // a header announcing billions of cells only exhausts memory (reported as inconclusive by
    // policy, never as a violation); keep it out of the campaign
    {
        let head = String::from_utf8_lossy(p[1].split(|&b| b == b'\n').next().unwrap_or(&[])).to_string();
        let dims: Vec<u64> = head.split(' ').filter_map(|t| t.parse::<u64>().ok()).collect();
        if dims.len() == 2 && dims[0].saturating_mul(dims[1]) > 16_000_000 {
            return;
        }
    }
    let Ok(mut dict) = vibrato::SystemDictionaryBuilder::from_readers(p[0], p[1], p[2], p[3]) else {
        return;
    };
    if !p[4].is_empty() {
        match dict.reset_user_lexicon_from_reader(Some(p[4])) {
            Ok(d) => dict = d,
            Err(_) => return,
        }
    }
    let extra = String::from_utf8_lossy(p[0]).to_string();
    exercise(dict, &extra);
});
