#![no_main]
// C09: every strict prefix of a valid image and every stream not starting with the magic is
// rejected with Err (no panic, no Ok). Input: [image selector, fault kind, 4 bytes of position, payload].
use libfuzzer_sys::fuzz_target;
use std::sync::OnceLock;


fn images() -> &'static Vec<Vec<u8>> {
    static IMAGES: OnceLock<Vec<Vec<u8>>> = OnceLock::new();
    IMAGES.get_or_init(|| {
        let lex = "a,0,0,1,x\n京都,1,1,5,y\nab,1,0,-3,z\n";
        let chardef = "DEFAULT 0 1 0\nSPACE 0 1 0\n0x0020 SPACE\n";
        let unk = "DEFAULT,0,0,100,*\nSPACE,0,0,10,*\n";
        let mut v = vec![];
        let d = vibrato::SystemDictionaryBuilder::from_readers(lex.as_bytes(), "2 2\n0 1 5\n1 0 -7\n".as_bytes(), chardef.as_bytes(), unk.as_bytes()).unwrap();
        let d = d.reset_user_lexicon_from_reader(Some("東,1,1,3,u\n".as_bytes())).unwrap();
        let d = d.map_connection_ids_from_iter([1u16], [1u16]).unwrap();
        let mut b = vec![];
        d.write(&mut b).unwrap();
        v.push(b);
        for dual in [false, true] {
            let d = vibrato::SystemDictionaryBuilder::from_readers_with_bigram_info(
                lex.as_bytes(),
                "1\tA,B,C,D,E,F,G,H,I\n".as_bytes(),
                "1\tA,B,C,D,E,F,G,H,I\n".as_bytes(),
                "A/A\t3\nB/B\t-2\n/A\t7\nI/I\t4\n".as_bytes(),
                chardef.as_bytes(),
                unk.as_bytes(),
                dual,
            )
            .unwrap();
            let mut b = vec![];
            d.write(&mut b).unwrap();
            v.push(b);
        }
        v
    })
}

fuzz_target!(|data: &[u8]| {
    if data.len() < 6 {
        return;
    }
    let imgs = images();
    let img = &imgs[data[0] as usize % imgs.len()];
    // the current magic is the first line of a freshly written image
    #[allow(non_snake_case)]
    let MAGIC: &[u8] = &img[..=img.iter().position(|&b| b == b'\n').unwrap()];
    let pos = u32::from_le_bytes([data[2], data[3], data[4], data[5]]) as usize;
    let stream: Vec<u8> = match data[1] % 4 {
        0 => img[..pos % img.len()].to_vec(), // strict prefix
        1 => {
            // one magic byte replaced
            let p = pos % MAGIC.len();
            let b = data.get(6).copied().unwrap_or(0);
            if b == MAGIC[p] {
                return;
            }
            let mut v = img.clone();
            v[p] = b;
            v
        }
        2 => {
            // arbitrary header of the payload's length, body kept
            let h = &data[6..data.len().min(6 + 21)];
            if h.starts_with(MAGIC) {
                return;
            }
            let mut v = h.to_vec();
            v.extend_from_slice(&img[MAGIC.len()..]);
            v
        }
        _ => {
            if data[6..].starts_with(MAGIC) {
                return;
            }
            data[6..].to_vec()
        }
    };
    assert!(vibrato::Dictionary::read(&stream[..]).is_err(), "C09: a truncated or foreign stream was loaded");
});
