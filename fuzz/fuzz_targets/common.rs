// Shared oracle code for the fuzz targets (included with `include!`).
use vibrato::verif_hooks as hooks;

/// Structural validity of one tokenization (C01's predicate without dictionary contents).
fn check_tokens(worker: &vibrato::tokenizer::worker::Worker, input: &str, ignore_space: bool) {
    let c2b: Vec<usize> = input.char_indices().map(|(b, _)| b).chain(std::iter::once(input.len())).collect();
    let n = c2b.len() - 1;
    let mut prev = 0usize;
    let mut concat = String::new();
    for i in 0..worker.num_tokens() {
        let t = worker.token(i);
        let rc = t.range_char();
        assert!(rc.start < rc.end && rc.end <= n && rc.start >= prev, "C10/C01: bad token range {rc:?} for {input:?}");
        if !ignore_space {
            assert_eq!(rc.start, prev, "C10/C01: gap without ignore_space in {input:?}");
        }
        assert_eq!(t.range_byte(), c2b[rc.start]..c2b[rc.end], "C10/C01: byte range");
        assert_eq!(t.surface(), &input[c2b[rc.start]..c2b[rc.end]], "C10/C01: surface");
        let _ = (t.feature(), t.left_id(), t.right_id(), t.word_cost(), t.total_cost(), t.lex_type());
        concat.push_str(t.surface());
        prev = rc.end;
    }
    if !ignore_space {
        assert_eq!(concat, input, "C10/C01: tokens do not cover the input");
    }
}

/// Acceptance implies safe use: tokenizes probe strings with an accepted dictionary.
/// Characters whose category has no unk.def entry are removed (open known finding).
fn exercise(dict: vibrato::Dictionary, extra: &str) {
    let per_cat = hooks::unk_entries_per_category(&dict);
    let usable = |c: char| {
        let (_, base, ..) = hooks::char_info(&dict, c);
        per_cat.get(base as usize).copied().unwrap_or(0) > 0
    };
    let probes = ["", "a", "ab cd", "京都東京都", "a\u{10000}\u{1F600} \t\u{3000}a", "0123", "\0a\0", "あいう", "a,b\"c"];
    let sentences: Vec<String> = probes
        .iter()
        .map(|s| s.to_string())
        .chain(std::iter::once(extra.chars().take(24).collect::<String>()))
        .map(|s| s.chars().filter(|&c| usable(c)).collect())
        .collect();
    let has_space = hooks::categories(&dict).iter().any(|c| c == "SPACE");
    let mut tokenizer = vibrato::Tokenizer::new(dict);
    for ignore_space in [false, true] {
        if ignore_space && !has_space {
            continue;
        }
        tokenizer = tokenizer.ignore_space(ignore_space).expect("C10: ignore_space rejected although SPACE exists");
        for mgl in [0usize, 2] {
            tokenizer = tokenizer.max_grouping_len(mgl);
            let mut w = tokenizer.new_worker();
            for s in &sentences {
                w.reset_sentence(s);
                w.tokenize();
                check_tokens(&w, s, ignore_space);
            }
        }
    }
}

/// Splits fuzz input into `n` payloads at the separator line "\n====\n"; missing payloads fall back
/// to the given defaults.
fn split_payloads<'a>(data: &'a [u8], defaults: &[&'a [u8]]) -> Vec<&'a [u8]> {
    let sep = b"\n====\n";
    let mut parts: Vec<&[u8]> = vec![];
    let mut rest = data;
    while parts.len() + 1 < defaults.len() {
        if let Some(p) = rest.windows(sep.len()).position(|w| w == sep) {
            parts.push(&rest[..p]);
            rest = &rest[p + sep.len()..];
        } else {
            break;
        }
    }
    parts.push(rest);
    for d in defaults.iter().skip(parts.len()) {
        parts.push(d);
    }
    parts
}
