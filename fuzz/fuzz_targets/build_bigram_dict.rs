#![no_main]
// C10/C07: from_readers_with_bigram_info (raw and dual) is total, acceptance implies safe use, and
// raw and dual connectors agree wherever the costs are small (no clamping possible).
// Input: bigram.right ==== bigram.left ==== bigram.cost ==== lex.csv
use libfuzzer_sys::fuzz_target;
include!("common.rs");

const RIGHT: &[u8] = b"1\tA,B,*\n2\tA,\"c,d\"\n";
const LEFT: &[u8] = b"1\tA,*,C\n2\tB\n";
const COST: &[u8] = b"A/A\t3\nB/*\t-2\n/A\t7\nA/\t-5\nc,d/B\t1\n";
const LEX: &[u8] = b"a,0,0,1,x\nb,1,1,2,y\nab,2,2,-3,z\n";
const CHARDEF: &[u8] = b"DEFAULT 0 1 0\nSPACE 0 1 0\n0x0020 SPACE\n";
const UNK: &[u8] = b"DEFAULT,0,0,100,*\nSPACE,0,0,10,*\n";

fuzz_target!(|data: &[u8]| {
    let p = split_payloads(data, &[RIGHT, LEFT, COST, LEX]);
    // outside the domain (DESIGN §9): costs whose sums can leave the i32 range; the accumulators are unprotected by
    // design and cargo-fuzz builds with overflow checks, so such inputs would only report the arithmetic itself
    let mut digits = 0usize;
    for &b in p[2] {
        digits = if b.is_ascii_digit() { digits + 1 } else { 0 };
        if digits > 6 {
            return;
        }
    }
    let build = |dual: bool| vibrato::SystemDictionaryBuilder::from_readers_with_bigram_info(p[3], p[0], p[1], p[2], CHARDEF, UNK, dual);
    let raw = build(false);
    let dual = build(true);
    assert_eq!(raw.is_ok(), dual.is_ok(), "C07/C10: raw and dual builders disagree on acceptance");
    let (Ok(raw), Ok(dual)) = (raw, dual) else { return };
    let (nl, nr) = (hooks::num_left(&raw), hooks::num_right(&raw));
    assert_eq!((nl, nr), (hooks::num_left(&dual), hooks::num_right(&dual)), "C07: sizes differ");
    // costs agree when every listed |cost| is small enough that no pre-sum can be clamped
    let small = String::from_utf8_lossy(p[2])
        .lines()
        .all(|l| l.rsplit('\t').next().and_then(|c| c.trim().parse::<i64>().ok()).map_or(true, |c| c.abs() <= 1000));
    if small && nl <= 40 && nr <= 40 {
        for r in 0..nr {
            for l in 0..nl {
                assert_eq!(
                    hooks::conn_cost(&raw, r as u16, l as u16),
                    hooks::conn_cost(&dual, r as u16, l as u16),
                    "C07: raw and dual connector costs differ at ({r},{l})"
                );
            }
        }
    }
    exercise(raw, "ab a b");
    exercise(dual, "ab a b");
});
