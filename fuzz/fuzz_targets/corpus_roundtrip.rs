#![no_main]
// C19: arbitrary bytes: if Corpus::from_reader accepts them, writing every example and re-parsing
// gives the same examples, and writing again gives the same bytes (fix-point). Panics are violations.
use libfuzzer_sys::fuzz_target;
use vibrato::trainer::Corpus;

fn dump(c: &Corpus) -> (Vec<Vec<(String, String)>>, Vec<u8>) {
    let mut out = vec![];
    let mut toks = vec![];
    for e in c.iter() {
        e.write(&mut out).unwrap();
        toks.push(e.tokens().iter().map(|w| (w.surface().to_string(), w.feature().to_string())).collect());
    }
    (toks, out)
}

fuzz_target!(|data: &[u8]| {
    // CR is a line-break character: outside the documented format (a lone trailing CR is kept by
    // the line reader but stripped once a newline follows it)
    if data.contains(&b'\r') {
        return;
    }
    let parsed = Corpus::from_reader(data);
    // "malformed lines are reported as errors": a stream that is not valid UTF-8 has a line that
    // cannot be read, so it must not be accepted (e.g. silently truncated)
    if std::str::from_utf8(data).is_err() {
        assert!(parsed.is_err(), "C19: a corpus that is not valid UTF-8 was accepted");
        return;
    }
    let Ok(c1) = parsed else { return };
    let (t1, w1) = dump(&c1);
    for sent in &t1 {
        assert!(sent.iter().any(|w| !w.0.is_empty()), "C19: a sentence without text was kept");
    }
    let c2 = Corpus::from_reader(&w1[..]).expect("C19: written corpus is rejected");
    let (t2, w2) = dump(&c2);
    assert_eq!(t1, t2, "C19: re-parsing the written corpus gives different examples");
    assert_eq!(w1, w2, "C19: writing is not a fix-point");
});
