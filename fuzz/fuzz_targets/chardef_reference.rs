#![no_main]
// C10 clause (3) / C03: "never silently mis-assign character categories". Input = char.def bytes.
// If the builder accepts the file and the strict reference parser can interpret it, the category
// set, primary category, invoke, group and length of every probe character (range bounds ±1, a few
// fixed characters) must equal the reference's reading of the file.
use libfuzzer_sys::fuzz_target;
use vibrato::verif_hooks as hooks;
use vverif::refmodel::chardef;

fuzz_target!(|data: &[u8]| {
    let Some(rdef) = chardef::parse(data) else { return };
    // unk.def: one entry per category so that the file set is complete
    let mut unk = String::new();
    for c in &rdef.cats {
        unk.push_str(&format!("{},0,0,1,*\n", c.name));
    }
    let Ok(dict) = vibrato::SystemDictionaryBuilder::from_readers("a,0,0,1,x\n".as_bytes(), "1 1\n".as_bytes(), data, unk.as_bytes()) else {
        return;
    };
    let names = hooks::categories(&dict);
    let mut probes: Vec<char> = vec!['a', 'z', '0', ' ', 'あ', '京', '\u{FFFF}', '\u{1}'];
    for (s, e, _) in &rdef.ranges {
        for u in [s.saturating_sub(1), *s, *e, (*e + 1).min(0xFFFF)] {
            if let Some(c) = char::from_u32(u) {
                probes.push(c);
            }
        }
    }
    for c in probes {
        let (set, primary) = rdef.info(c);
        let (idset, base, invoke, group, length) = hooks::char_info(&dict, c);
        let mut got: Vec<String> = (0..32).filter(|i| idset >> i & 1 == 1).map(|i| names.get(i).cloned().unwrap_or_default()).collect();
        got.sort();
        assert_eq!(got, set, "C10: category set of U+{:04X} differs from char.def", c as u32);
        assert_eq!(names.get(base as usize), Some(&primary.name), "C10: primary category of U+{:04X}", c as u32);
        assert_eq!((invoke, group, u32::from(length)), (primary.invoke, primary.group, u32::from(primary.length)), "C10: invoke/group/length of U+{:04X}", c as u32);
    }
});
