//! Compile-time part of C04: "The tokenizer can be shared across threads."
//! If this crate stops compiling while the harness proper still builds, the property is violated.
fn is_send_sync<T: Send + Sync>() {}

pub fn assert_shareable() {
    is_send_sync::<vibrato::Tokenizer>();
    is_send_sync::<vibrato::Dictionary>();
    // a worker may be moved to another thread together with a reference to the shared tokenizer
    fn is_send<T: Send>() {}
    is_send::<vibrato::tokenizer::worker::Worker<'static>>();
}
