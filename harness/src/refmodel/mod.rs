//! Independent reference model (DESIGN 4): naive char classes, candidates, Viterbi, connectors.
//! Written from the property statements; shares no code or data layout with the implementation.
use std::collections::HashMap;

use crate::gen::bigram::BigramModel;
use crate::gen::dict::{CharDef, ConnSpec, DictSpec, LexRow, MatrixSpec};

pub mod chardef;
pub mod train;

// ---------------------------------------------------------------------------------------------
// Connectors (4.4)

#[derive(Clone, Debug)]
pub struct RefConn {
    pub num_right: usize,
    pub num_left: usize,
    /// cost[right][left]
    pub cost: Vec<Vec<i64>>,
    /// Σ_p |c_p(r,l)| (bigram only; 0 for matrix): used to decide whether the dual connector's
    /// pre-summed part can have been clamped.
    pub abs_sum: Vec<Vec<i64>>,
    /// true iff every partial sum over template positions lies inside i16 (sum of the negative
    /// contributions ≥ -32768 and sum of the positive ones ≤ 32767): whatever subset of positions the
    /// dual connector pre-sums, that part "fits in 16 bits" and cannot have been clamped.
    pub fits16: Vec<Vec<bool>>,
}

impl RefConn {
    pub fn from_matrix(m: &MatrixSpec) -> Self {
        let nr = usize::from(m.num_right);
        let nl = usize::from(m.num_left);
        let mut cost = vec![vec![0i64; nl]; nr];
        for &(r, l, c) in &m.cells {
            cost[usize::from(r)][usize::from(l)] = i64::from(c);
        }
        Self {
            num_right: nr,
            num_left: nl,
            abs_sum: vec![vec![0; nl]; nr],
            fits16: vec![vec![true; nl]; nr],
            cost,
        }
    }

    pub fn from_bigram(b: &BigramModel) -> Self {
        let k = b.k();
        let mut table: HashMap<(&str, &str), i64> = HashMap::new();
        for (r, l, c) in &b.costs {
            table.insert((r.as_str(), l.as_str()), i64::from(*c));
        }
        let nr = b.right_rows.len() + 1;
        let nl = b.left_rows.len() + 1;
        let mut cost = vec![vec![0i64; nl]; nr];
        let mut abs_sum = vec![vec![0i64; nl]; nr];
        let mut fits16 = vec![vec![true; nl]; nr];
        // feature of id `id` at position p: id 0 is the empty feature at every position;
        // a row shorter than p has nothing there.
        let feat = |rows: &Vec<Vec<String>>, id: usize, p: usize| -> Option<String> {
            if id == 0 {
                Some(String::new())
            } else {
                rows[id - 1].get(p).cloned()
            }
        };
        for r in 0..nr {
            for l in 0..nl {
                let mut s = 0i64;
                let mut a = 0i64;
                let (mut neg, mut pos) = (0i64, 0i64);
                for p in 0..k {
                    if let (Some(fr), Some(fl)) = (feat(&b.right_rows, r, p), feat(&b.left_rows, l, p)) {
                        if fr == "*" || fl == "*" {
                            continue;
                        }
                        if let Some(c) = table.get(&(fr.as_str(), fl.as_str())) {
                            s += c;
                            a += c.abs();
                            if *c < 0 {
                                neg += c;
                            } else {
                                pos += c;
                            }
                        }
                    }
                }
                cost[r][l] = s;
                abs_sum[r][l] = a;
                fits16[r][l] = neg >= -32768 && pos <= 32767;
            }
        }
        Self {
            num_right: nr,
            num_left: nl,
            cost,
            abs_sum,
            fits16,
        }
    }

    pub fn from_spec(c: &ConnSpec) -> Self {
        match c {
            ConnSpec::Matrix(m) => Self::from_matrix(m),
            ConnSpec::Bigram { model, .. } => Self::from_bigram(model),
        }
    }

    #[inline]
    pub fn get(&self, right: u16, left: u16) -> i64 {
        self.cost[usize::from(right)][usize::from(left)]
    }

    /// Renders the cost function as a dense matrix.def.
    pub fn to_matrix_def(&self) -> String {
        let mut out = format!("{} {}\n", self.num_right, self.num_left);
        for r in 0..self.num_right {
            for l in 0..self.num_left {
                out.push_str(&format!("{r} {l} {}\n", self.cost[r][l]));
            }
        }
        out
    }
}

// ---------------------------------------------------------------------------------------------
// Character classes (4.1)

#[derive(Clone, Copy, Debug, PartialEq, Eq)]
pub struct RefCharInfo {
    /// Bit i set iff category i (index into CharDef::cats) is in the character's category set.
    pub cats: u32,
    pub primary: usize,
}

/// Bit of a category in a character's category set; categories beyond the 18 assignable ids (and
/// certainly beyond 31) are carried by no character.
pub fn cat_bit(i: usize) -> u32 {
    if i < 32 {
        1u32 << i
    } else {
        0
    }
}

pub struct RefChars<'a> {
    pub def: &'a CharDef,
}

impl<'a> RefChars<'a> {
    pub fn info(&self, c: char) -> RefCharInfo {
        let u = c as u32;
        let mut found: Option<&crate::gen::dict::RangeSpec> = None;
        if u <= 0xFFFF {
            for r in &self.def.ranges {
                if r.start <= u && u <= r.end {
                    found = Some(r);
                }
            }
        }
        match found {
            Some(r) => {
                let mut cats = 0u32;
                for &c in &r.cats {
                    cats |= 1 << c;
                }
                RefCharInfo {
                    cats,
                    primary: r.cats[0],
                }
            }
            None => RefCharInfo {
                cats: 1,
                primary: 0,
            },
        }
    }

    pub fn space_idx(&self) -> Option<usize> {
        self.def.cats.iter().position(|c| c.name == "SPACE")
    }
}

// ---------------------------------------------------------------------------------------------
// Candidates (4.2) and Viterbi (4.3)

#[derive(Clone, Debug, PartialEq, Eq, PartialOrd, Ord, Hash)]
pub struct Cand {
    pub end: usize,
    /// 0 = system, 1 = user, 2 = unknown
    pub lex_type: u8,
    pub word_id: u32,
    pub left: u16,
    pub right: u16,
    pub cost: i16,
}

#[derive(Clone, Debug)]
pub struct RefNode {
    pub start_node: usize,
    pub start_word: usize,
    pub cand: Cand,
    /// Minimum accumulated cost from BOS up to and including this node.
    pub best: i64,
    /// Number of distinct optimal prefixes reaching this node (saturating).
    pub npaths: u64,
}

/// Which sub-rules of the unknown-word rule fired (summed over positions).
#[derive(Clone, Debug, Default)]
pub struct Trace {
    pub lex_match: u32,
    pub invoke_suppressed: u32,
    pub invoke_with_match: u32,
    pub group_emitted: u32,
    pub group_omitted: u32,
    pub bound_edge: u32,
    pub length_prefix: u32,
    pub length_ne_run: u32,
    pub dup_skipped: u32,
    pub fallback: u32,
    pub multi_unk_entries: u32,
    pub multi_cat_char: u32,
}

#[derive(Clone, Debug, Default)]
pub struct RefLattice {
    pub trace: Trace,
    pub len: usize,
    pub nodes: Vec<RefNode>,
    /// (start_node, start_word) pairs processed, in order.
    pub processed: Vec<(usize, usize)>,
    pub eos_from: usize,
    pub eos_best: i64,
    pub eos_npaths: u64,
    /// Number of complete BOS→EOS paths (saturating) regardless of cost.
    pub total_paths: u64,
    /// Best accumulated cost among nodes ending at `eos_from` *without* the EOS connection.
    pub best_before_eos: i64,
    /// Connection-id evaluation counts (C13): (left id counts, right id counts).
    pub lid_count: Vec<u64>,
    pub rid_count: Vec<u64>,
}

pub struct RefDict<'a> {
    pub spec: &'a DictSpec,
    pub user: &'a [LexRow],
    pub conn: RefConn,
    /// Unknown entries in word-id order (category id order, file order within a category).
    pub unk_order: Vec<usize>,
    /// word ids per category.
    pub unk_by_cat: Vec<Vec<u32>>,
}

impl<'a> RefDict<'a> {
    pub fn new(spec: &'a DictSpec, user: &'a [LexRow]) -> Self {
        let ncat = spec.chardef.cats.len();
        let mut unk_order = vec![];
        let mut unk_by_cat = vec![vec![]; ncat];
        for c in 0..ncat {
            for (i, u) in spec.unk.iter().enumerate() {
                if u.cat == c {
                    unk_by_cat[c].push(unk_order.len() as u32);
                    unk_order.push(i);
                }
            }
        }
        Self {
            spec,
            user,
            conn: RefConn::from_spec(&spec.conn),
            unk_order,
            unk_by_cat,
        }
    }

    pub fn chars(&self) -> RefChars<'_> {
        RefChars {
            def: &self.spec.chardef,
        }
    }

    /// (feature, left, right, cost) of a word index.
    pub fn entry(&self, lex_type: u8, word_id: u32) -> Option<(&str, u16, u16, i16)> {
        match lex_type {
            0 => self
                .spec
                .lex
                .get(word_id as usize)
                .map(|r| (r.feature.as_str(), r.left, r.right, r.cost)),
            1 => self
                .user
                .get(word_id as usize)
                .map(|r| (r.feature.as_str(), r.left, r.right, r.cost)),
            _ => self.unk_order.get(word_id as usize).map(|&i| {
                let u = &self.spec.unk[i];
                (u.feature.as_str(), u.left, u.right, u.cost)
            }),
        }
    }

    /// Run length of category-sharing neighbours starting at `i`.
    pub fn run(infos: &[RefCharInfo], i: usize) -> usize {
        let mut n = 1;
        while i + n < infos.len() && (infos[i + n - 1].cats & infos[i + n].cats) != 0 {
            n += 1;
        }
        n
    }

    /// The C03 rule, literally.
    pub fn candidates(
        &self,
        chars: &[char],
        infos: &[RefCharInfo],
        p: usize,
        max_grouping_len: usize,
        tr: &mut Trace,
    ) -> Vec<Cand> {
        let mut out = vec![];
        let rest = &chars[p..];
        let mut matched = false;
        for (lex_type, rows) in [(1u8, self.user), (0u8, self.spec.lex.as_slice())] {
            for (i, row) in rows.iter().enumerate() {
                let sc: Vec<char> = row.surface.chars().collect();
                if !sc.is_empty() && sc.len() <= rest.len() && rest[..sc.len()] == sc[..] {
                    out.push(Cand {
                        end: p + sc.len(),
                        lex_type,
                        word_id: i as u32,
                        left: row.left,
                        right: row.right,
                        cost: row.cost,
                    });
                    matched = true;
                }
            }
        }
        let info = infos[p];
        let cat = &self.spec.chardef.cats[info.primary];
        tr.lex_match += u32::from(matched);
        tr.multi_cat_char += u32::from(info.cats.count_ones() > 1);
        if matched && !cat.invoke {
            tr.invoke_suppressed += 1;
            return out;
        }
        tr.invoke_with_match += u32::from(matched);
        let run = Self::run(infos, p);
        if cat.group && max_grouping_len != 0 && (run - 1 == max_grouping_len || run - 1 == max_grouping_len + 1) {
            tr.bound_edge += 1;
        }
        if usize::from(cat.length) != run && cat.length > 0 {
            tr.length_ne_run += 1;
        }
        tr.multi_unk_entries += u32::from(self.unk_by_cat[info.primary].len() > 1);
        let mut produced = matched;
        let mut ends = vec![];
        if cat.group {
            // omitted when the run exceeds max_grouping_len + 1 (0 = unlimited)
            if max_grouping_len == 0 || run - 1 <= max_grouping_len {
                ends.push(p + run);
                produced = true;
                tr.group_emitted += 1;
            } else {
                tr.group_omitted += 1;
            }
        }
        for n in 1..=usize::from(cat.length).min(run) {
            if cat.group && n == run {
                tr.dup_skipped += 1;
                continue;
            }
            ends.push(p + n);
            produced = true;
            tr.length_prefix += 1;
        }
        if !produced {
            ends.push(p + 1);
            tr.fallback += 1;
        }
        for e in ends {
            for &wid in &self.unk_by_cat[info.primary] {
                let u = &self.spec.unk[self.unk_order[wid as usize]];
                out.push(Cand {
                    end: e,
                    lex_type: 2,
                    word_id: wid,
                    left: u.left,
                    right: u.right,
                    cost: u.cost,
                });
            }
        }
        out
    }

    /// Reference Viterbi. `ignore_space` must only be used in the C12-precondition domain.
    pub fn lattice(&self, sentence: &str, ignore_space: bool, max_grouping_len: usize) -> RefLattice {
        let chars: Vec<char> = sentence.chars().collect();
        let len = chars.len();
        let rc = self.chars();
        let infos: Vec<RefCharInfo> = chars.iter().map(|&c| rc.info(c)).collect();
        let space_bit = rc.space_idx().map(cat_bit);
        let mut lat = RefLattice {
            len,
            lid_count: vec![0; self.conn.num_left],
            rid_count: vec![0; self.conn.num_right],
            ..Default::default()
        };
        if len == 0 {
            return lat;
        }
        // ends[p]: indices of nodes ending at p; usize::MAX denotes BOS.
        let mut ends: Vec<Vec<usize>> = vec![vec![]; len + 1];
        ends[0].push(usize::MAX);
        let pred = |nodes: &Vec<RefNode>, i: usize| -> (u16, i64, u64, u64) {
            if i == usize::MAX {
                (0, 0, 1, 1)
            } else {
                (nodes[i].cand.right, nodes[i].best, nodes[i].npaths, 0)
            }
        };
        // total path counts per node (all paths, not only optimal)
        let mut tot: Vec<u64> = vec![];
        let mut eos_from = len;
        for p in 0..len {
            if ends[p].is_empty() {
                continue;
            }
            let mut q = p;
            if ignore_space {
                if let Some(sb) = space_bit {
                    while q < len && (infos[q].cats & sb) != 0 {
                        q += 1;
                    }
                }
            }
            if q == len {
                eos_from = p;
                break;
            }
            lat.processed.push((p, q));
            let mut tr = std::mem::take(&mut lat.trace);
            let cands = self.candidates(&chars, &infos, q, max_grouping_len, &mut tr);
            lat.trace = tr;
            for cand in cands {
                let mut best = i64::MAX;
                let mut np = 0u64;
                let mut tp = 0u64;
                for &pi in &ends[p] {
                    let (right, pbest, pn, _) = pred(&lat.nodes, pi);
                    let c = pbest + self.conn.get(right, cand.left);
                    if c < best {
                        best = c;
                        np = pn;
                    } else if c == best {
                        np = np.saturating_add(pn);
                    }
                    tp = tp.saturating_add(if pi == usize::MAX { 1 } else { tot[pi] });
                    lat.lid_count[usize::from(cand.left)] += 1;
                    lat.rid_count[usize::from(right)] += 1;
                }
                let idx = lat.nodes.len();
                ends[cand.end].push(idx);
                lat.nodes.push(RefNode {
                    start_node: p,
                    start_word: q,
                    best: best + i64::from(cand.cost),
                    npaths: np,
                    cand,
                });
                tot.push(tp);
            }
        }
        lat.eos_from = eos_from;
        let mut best = i64::MAX;
        let mut np = 0u64;
        let mut tp = 0u64;
        let mut bb = i64::MAX;
        for &pi in &ends[eos_from] {
            let (right, pbest, pn, _) = pred(&lat.nodes, pi);
            let c = pbest + self.conn.get(right, 0);
            if c < best {
                best = c;
                np = pn;
            } else if c == best {
                np = np.saturating_add(pn);
            }
            bb = bb.min(pbest);
            tp = tp.saturating_add(if pi == usize::MAX { 1 } else { tot[pi] });
        }
        // C13: the connection to EOS is evaluated for the nodes EOS is attached to, i.e. those ending where
        // the trailing (skipped) space run starts — the sentence end when nothing is skipped.
        for &pi in &ends[eos_from] {
            let (right, _, _, _) = pred(&lat.nodes, pi);
            lat.lid_count[0] += 1;
            lat.rid_count[usize::from(right)] += 1;
        }
        lat.eos_best = best;
        lat.eos_npaths = np;
        lat.total_paths = tp;
        lat.best_before_eos = bb;
        lat
    }
}

// ---------------------------------------------------------------------------------------------
// Token views of the implementation (black-box accessors)

#[derive(Clone, Debug, PartialEq, Eq, Hash, serde::Serialize, serde::Deserialize)]
pub struct Tok {
    pub range_char: (usize, usize),
    pub range_byte: (usize, usize),
    pub surface: String,
    pub feature: String,
    /// 0 = system, 1 = user, 2 = unknown
    pub lex_type: u8,
    pub word_id: u32,
    pub left_id: u16,
    pub right_id: u16,
    pub word_cost: i16,
    pub total_cost: i32,
}

pub fn lex_type_u8(t: vibrato::dictionary::LexType) -> u8 {
    match t {
        vibrato::dictionary::LexType::System => 0,
        vibrato::dictionary::LexType::User => 1,
        vibrato::dictionary::LexType::Unknown => 2,
    }
}

pub fn tok_of(t: &vibrato::token::Token) -> Tok {
    let rc = t.range_char();
    let rb = t.range_byte();
    Tok {
        range_char: (rc.start, rc.end),
        range_byte: (rb.start, rb.end),
        surface: t.surface().to_string(),
        feature: t.feature().to_string(),
        lex_type: lex_type_u8(t.lex_type()),
        word_id: t.word_idx().word_id,
        left_id: t.left_id(),
        right_id: t.right_id(),
        word_cost: t.word_cost(),
        total_cost: t.total_cost(),
    }
}

/// All tokens of a worker via `token(i)`.
pub fn tokens_of(worker: &vibrato::tokenizer::worker::Worker) -> Vec<Tok> {
    (0..worker.num_tokens())
        .map(|i| tok_of(&worker.token(i)))
        .collect()
}

/// Tokenizes `sentence` on a fresh worker.
pub fn tokenize_fresh(tokenizer: &vibrato::Tokenizer, sentence: &str) -> Vec<Tok> {
    let mut w = tokenizer.new_worker();
    w.reset_sentence(sentence);
    w.tokenize();
    tokens_of(&w)
}

pub fn make_tokenizer(
    dict: vibrato::Dictionary,
    ignore_space: bool,
    max_grouping_len: usize,
) -> Result<vibrato::Tokenizer, String> {
    make_tokenizer_h(dict, ignore_space, max_grouping_len, 0)
}

/// Puts the options in place through a history of setter calls selected by `history`; whatever the
/// history, the values in force are those of the last call of each setter.
///   bit 0: max_grouping_len is first set to another value (24 if the final one is 0 or 1, else 0 ... see below)
///   bit 1: the setters are called in the other order (max_grouping_len before ignore_space)
///   bit 2: ignore_space is toggled true → false first (only when the final value is true, i.e. SPACE exists)
pub fn make_tokenizer_h(
    dict: vibrato::Dictionary,
    ignore_space: bool,
    max_grouping_len: usize,
    history: u8,
) -> Result<vibrato::Tokenizer, String> {
    let mut t = vibrato::Tokenizer::new(dict);
    if history & 1 != 0 {
        // an earlier, different limit: a small one when the final value is "unlimited"/large, "unlimited" otherwise
        let earlier = if max_grouping_len == 0 || max_grouping_len > 3 { 1 + usize::from(history >> 1) % 3 } else { 0 };
        t = t.max_grouping_len(earlier);
    }
    if history & 4 != 0 && ignore_space {
        t = t.ignore_space(true).map_err(|e| format!("ignore_space: {e}"))?;
        t = t.ignore_space(false).map_err(|e| format!("ignore_space: {e}"))?;
    }
    if history & 2 != 0 {
        t = t.max_grouping_len(max_grouping_len);
        t = t.ignore_space(ignore_space).map_err(|e| format!("ignore_space: {e}"))?;
    } else {
        t = t.ignore_space(ignore_space).map_err(|e| format!("ignore_space: {e}"))?;
        t = t.max_grouping_len(max_grouping_len);
    }
    Ok(t)
}
