//! Strict reference parser for char.def (used by C10). Returns `None` whenever the file leaves
//! the plainly documented format, in which case the implementation is free to accept or reject.
use std::collections::BTreeMap;

#[derive(Clone, Debug, PartialEq, Eq)]
pub struct RefCat {
    pub name: String,
    pub invoke: bool,
    pub group: bool,
    pub length: u8,
}

#[derive(Clone, Debug)]
pub struct RefCharDef {
    pub cats: Vec<RefCat>,
    /// (start, end inclusive, category names)
    pub ranges: Vec<(u32, u32, Vec<String>)>,
}

fn parse_hex(tok: &str) -> Option<u32> {
    let h = tok.strip_prefix("0x")?;
    if h.is_empty() || h.len() > 6 || !h.chars().all(|c| c.is_ascii_hexdigit()) {
        return None;
    }
    u32::from_str_radix(h, 16).ok()
}

pub fn parse(text: &[u8]) -> Option<RefCharDef> {
    let text = std::str::from_utf8(text).ok()?;
    // only plain ASCII blanks: the implementation splits on every Unicode white space
    if text.chars().any(|c| (c.is_whitespace() && !matches!(c, ' ' | '\t' | '\n')) || (c.is_control() && !matches!(c, '\t' | '\n'))) {
        return None;
    }
    let mut cats: Vec<RefCat> = vec![];
    let mut ranges = vec![];
    for line in text.split('\n') {
        let line = line.trim_matches(|c| c == ' ' || c == '\t');
        if line.is_empty() || line.starts_with('#') {
            continue;
        }
        let toks: Vec<&str> = line.split(|c| c == ' ' || c == '\t').filter(|t| !t.is_empty()).collect();
        if line.starts_with("0x") {
            let (s, e) = match toks[0].split_once("..") {
                Some((a, b)) => (parse_hex(a)?, parse_hex(b)?),
                None => {
                    let v = parse_hex(toks[0])?;
                    (v, v)
                }
            };
            if s > e || e > 0xFFFF {
                return None;
            }
            let mut names = vec![];
            for t in &toks[1..] {
                if t.starts_with('#') {
                    break;
                }
                names.push((*t).to_string());
            }
            if names.is_empty() {
                return None;
            }
            ranges.push((s, e, names));
        } else {
            if toks.len() < 4 {
                return None;
            }
            if toks.len() > 4 && !toks[4].starts_with('#') {
                return None;
            }
            if toks[0].starts_with('#') || toks[0].contains(',') {
                return None;
            }
            let flag = |t: &str| match t {
                "0" => Some(false),
                "1" => Some(true),
                _ => None,
            };
            let length: u8 = if toks[3].chars().all(|c| c.is_ascii_digit()) && toks[3].len() <= 2 {
                toks[3].parse().ok()?
            } else {
                return None;
            };
            if length > 15 {
                return None;
            }
            if cats.iter().any(|c| c.name == toks[0]) {
                return None; // redefinition: unspecified
            }
            cats.push(RefCat {
                name: toks[0].to_string(),
                invoke: flag(toks[1])?,
                group: flag(toks[2])?,
                length,
            });
        }
    }
    if !cats.iter().any(|c| c.name == "DEFAULT") {
        return None;
    }
    for (_, _, names) in &ranges {
        for n in names {
            if !cats.iter().any(|c| &c.name == n) {
                return None;
            }
        }
    }
    Some(RefCharDef { cats, ranges })
}

impl RefCharDef {
    /// (category name set, primary category) of a BMP character; astral characters are DEFAULT.
    pub fn info(&self, c: char) -> (Vec<String>, &RefCat) {
        let u = c as u32;
        let mut found = None;
        if u <= 0xFFFF {
            for r in &self.ranges {
                if r.0 <= u && u <= r.1 {
                    found = Some(r);
                }
            }
        }
        let names: Vec<String> = match found {
            Some(r) => r.2.clone(),
            None => vec!["DEFAULT".to_string()],
        };
        let primary = self.cats.iter().find(|c| c.name == names[0]).unwrap();
        let mut set: Vec<String> = names.clone();
        set.sort();
        set.dedup();
        (set, primary)
    }

    pub fn covers_nul(&self) -> bool {
        self.ranges.iter().any(|r| r.0 == 0)
    }

    pub fn category_ids(&self) -> BTreeMap<String, usize> {
        // DEFAULT is always id 0; others in order of definition
        let mut m = BTreeMap::new();
        m.insert("DEFAULT".to_string(), 0);
        for c in &self.cats {
            let n = m.len();
            m.entry(c.name.clone()).or_insert(n);
        }
        m
    }
}
