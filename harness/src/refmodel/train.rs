//! Trainer-side references (DESIGN 4.5): rewriter, template expansion, model merge.
use std::collections::BTreeMap;

use vibrato::verif_hooks::train::ModelView;

// ---------------------------------------------------------------------------------------------
// RefRewriter (C17): first matching rule in file order

pub fn pattern_matches(p: &str, f: &str) -> bool {
    if p == "*" {
        true
    } else if p.len() >= 2 && p.starts_with('(') && p.ends_with(')') {
        p[1..p.len() - 1].split('|').any(|alt| alt == f)
    } else {
        p == f
    }
}

/// `rules`: (pattern cells, rewrite cells). Returns the rewritten features or None.
pub fn ref_rewrite(rules: &[(Vec<String>, Vec<String>)], features: &[String]) -> Option<Vec<String>> {
    for (pat, rw) in rules {
        if pat.len() > features.len() {
            continue;
        }
        if pat.iter().zip(features).all(|(p, f)| pattern_matches(p, f)) {
            return Some(
                rw.iter()
                    .map(|r| {
                        if let Some(n) = r.strip_prefix('$').filter(|d| !d.is_empty() && d.chars().all(|c| c.is_ascii_digit())) {
                            let n: usize = n.parse().unwrap();
                            features.get(n - 1).cloned().unwrap_or_else(|| "*".to_string())
                        } else {
                            r.clone()
                        }
                    })
                    .collect(),
            );
        }
    }
    None
}

// ---------------------------------------------------------------------------------------------
// RefTemplates (C18, C20): MeCab template expansion

/// Expands a template. `kind` is 'F', 'L' or 'R'. Returns None when an optional reference
/// (`%X?[i]`) names a feature that is '*' or absent.
pub fn ref_expand(template: &str, kind: char, features: &[String], cate_id: u32) -> Option<String> {
    let b: Vec<char> = template.chars().collect();
    let mut out = String::new();
    let mut i = 0;
    while i < b.len() {
        if b[i] == '%' {
            // %t (unigram only)
            if kind == 'F' && i + 1 < b.len() && b[i + 1] == 't' {
                out.push_str(&cate_id.to_string());
                i += 2;
                continue;
            }
            if i + 1 < b.len() && b[i + 1] == kind {
                let mut j = i + 2;
                let optional = j < b.len() && b[j] == '?';
                if optional {
                    j += 1;
                }
                if j < b.len() && b[j] == '[' {
                    let mut k = j + 1;
                    let mut digits = String::new();
                    while k < b.len() && b[k].is_ascii_digit() {
                        digits.push(b[k]);
                        k += 1;
                    }
                    if !digits.is_empty() && k < b.len() && b[k] == ']' {
                        let idx: usize = digits.parse().unwrap();
                        let val = features.get(idx).map(|s| s.as_str()).unwrap_or("*");
                        if optional && val == "*" {
                            return None;
                        }
                        out.push_str(val);
                        i = k + 1;
                        continue;
                    }
                }
            }
        }
        out.push(b[i]);
        i += 1;
    }
    Some(out)
}

// ---------------------------------------------------------------------------------------------
// RefMerge (C14, C16, C18): recomputes merged weights, connection classes and the matrix from
// the raw model exposed by the hook, summing in the definition's order.

#[derive(Clone, Debug)]
pub struct Merged {
    pub weight: Vec<f64>,
    pub left_id: Vec<u32>,
    pub right_id: Vec<u32>,
    /// left class j (1-based) -> its bigram_right feature list
    pub left_lists: Vec<Vec<Option<u32>>>,
    pub right_lists: Vec<Vec<Option<u32>>>,
    /// matrix[right class][left class] (0 = BOS/EOS), absent = 0
    pub matrix: Vec<BTreeMap<u32, f64>>,
    pub max_abs: f64,
}

pub fn ref_merge(v: &ModelView) -> Merged {
    let bw: Vec<BTreeMap<u32, u32>> = v.bigram_weight_indices.iter().map(|l| l.iter().copied().collect()).collect();
    let mut weight = vec![];
    let mut left_id = vec![];
    let mut right_id = vec![];
    let mut left_lists: Vec<Vec<Option<u32>>> = vec![];
    let mut right_lists: Vec<Vec<Option<u32>>> = vec![];
    for (uni, bright, bleft) in &v.feature_sets {
        let mut w = 0.0f64;
        for fid in uni {
            if let Some(Some(widx)) = v.unigram_weight_indices.get((*fid - 1) as usize) {
                w += v.weights[(*widx - 1) as usize];
            }
        }
        weight.push(w);
        let l = match left_lists.iter().position(|x| x == bright) {
            Some(p) => p + 1,
            None => {
                left_lists.push(bright.clone());
                left_lists.len()
            }
        };
        let r = match right_lists.iter().position(|x| x == bleft) {
            Some(p) => p + 1,
            None => {
                right_lists.push(bleft.clone());
                right_lists.len()
            }
        };
        left_id.push(l as u32);
        right_id.push(r as u32);
    }
    let get = |a: usize, b: u32| -> Option<f64> { bw.get(a).and_then(|m| m.get(&b)).map(|&widx| v.weights[widx as usize]) };
    let mut matrix = vec![];
    let mut m0 = BTreeMap::new();
    for (j, l) in left_lists.iter().enumerate() {
        let mut w = 0.0;
        for fid in l.iter().flatten() {
            if let Some(x) = get(0, *fid) {
                w += x;
            }
        }
        if w.abs() >= f64::EPSILON {
            m0.insert((j + 1) as u32, w);
        }
    }
    matrix.push(m0);
    for r in &right_lists {
        let mut m = BTreeMap::new();
        let mut w = 0.0;
        for fid in r.iter().flatten() {
            if let Some(x) = get(*fid as usize, 0) {
                w += x;
            }
        }
        if w.abs() >= f64::EPSILON {
            m.insert(0, w);
        }
        for (j, l) in left_lists.iter().enumerate() {
            let mut w = 0.0;
            for (a, b) in r.iter().zip(l) {
                if let (Some(a), Some(b)) = (a, b) {
                    if let Some(x) = get(*a as usize, *b) {
                        w += x;
                    }
                }
            }
            if w.abs() >= f64::EPSILON {
                m.insert((j + 1) as u32, w);
            }
        }
        matrix.push(m);
    }
    let mut max_abs = 0f64;
    for w in &weight {
        max_abs = max_abs.max(w.abs());
    }
    for m in &matrix {
        for w in m.values() {
            max_abs = max_abs.max(w.abs());
        }
    }
    Merged {
        weight,
        left_id,
        right_id,
        left_lists,
        right_lists,
        matrix,
        max_abs,
    }
}

impl Merged {
    pub fn scale(&self) -> f64 {
        f64::from(i16::MAX) / self.max_abs
    }
    /// trunc(-w * 32767 / max|w|) as the emitted i16 cost.
    pub fn cost16(&self, w: f64) -> i16 {
        (-w * self.scale()) as i16
    }
    /// true if the scaled value is within 1e-6 of an integer (±1 allowance; counted by callers)
    pub fn near_integer(&self, w: f64) -> bool {
        let x = -w * self.scale();
        x.is_finite() && (x - x.round()).abs() < 1e-6 && x != x.trunc()
    }
}
