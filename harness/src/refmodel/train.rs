//! Trainer-side references (DESIGN 4.5).
