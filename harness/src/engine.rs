//! Sharded proptest driver, counters, evidence writer, replay I/O (DESIGN 2.3).
use std::cell::RefCell;
use std::collections::{BTreeMap, HashSet};
use std::fmt::Debug;
use std::hash::{Hash, Hasher};
use std::panic::{catch_unwind, AssertUnwindSafe};
use std::path::{Path, PathBuf};
use std::sync::atomic::{AtomicBool, Ordering};
use std::sync::{Arc, Mutex};
use std::time::Instant;

use proptest::strategy::{BoxedStrategy, Strategy};
use proptest::test_runner::{Config, RngAlgorithm, RngSeed, TestCaseError, TestError, TestRunner};
use serde::de::DeserializeOwned;
use serde::Serialize;
use serde_json::{json, Value};

#[derive(Clone, Copy, PartialEq, Eq, Debug)]
pub enum Tier {
    Quick,
    Thorough,
}

impl Tier {
    pub fn name(self) -> &'static str {
        match self {
            Tier::Quick => "quick",
            Tier::Thorough => "thorough",
        }
    }
    /// Picks a work amount by tier.
    pub fn pick(self, quick: u32, thorough: u32) -> u32 {
        match self {
            Tier::Quick => quick,
            Tier::Thorough => thorough,
        }
    }
}

#[derive(Clone, Debug)]
pub struct Opts {
    pub tier: Tier,
    pub seed: u64,
    pub threads: usize,
    pub verif_dir: PathBuf,
    /// Scale factor on case counts (VERIF_SCALE, default 1.0) for experiments.
    pub scale: f64,
    /// When set, only run this sub-check's replay.
    pub replay: Option<PathBuf>,
}

// ---------------------------------------------------------------------------------------------
// Panic capture

thread_local! {
    static LAST_PANIC: RefCell<Option<String>> = const { RefCell::new(None) };
    static IN_GUARD: std::cell::Cell<u32> = const { std::cell::Cell::new(0) };
}

pub fn install_panic_hook() {
    std::panic::set_hook(Box::new(|info| {
        let loc = info
            .location()
            .map(|l| format!("{}:{}", l.file(), l.line()))
            .unwrap_or_default();
        let msg = if let Some(s) = info.payload().downcast_ref::<&str>() {
            (*s).to_string()
        } else if let Some(s) = info.payload().downcast_ref::<String>() {
            s.clone()
        } else {
            "<non-string panic>".to_string()
        };
        if IN_GUARD.with(|g| g.get()) == 0 {
            eprintln!("harness panic outside guard at {loc}: {msg}");
        }
        LAST_PANIC.with(|p| *p.borrow_mut() = Some(format!("panic at {loc}: {msg}")));
    }));
}

/// Runs `f`, turning a panic into `Err(description)`.
pub fn guard<T>(f: impl FnOnce() -> T) -> Result<T, String> {
    LAST_PANIC.with(|p| *p.borrow_mut() = None);
    IN_GUARD.with(|g| g.set(g.get() + 1));
    let r = catch_unwind(AssertUnwindSafe(f));
    IN_GUARD.with(|g| g.set(g.get() - 1));
    match r {
        Ok(v) => Ok(v),
        Err(_) => Err(LAST_PANIC
            .with(|p| p.borrow_mut().take())
            .unwrap_or_else(|| "panic (no message)".to_string())),
    }
}

// ---------------------------------------------------------------------------------------------
// Per-shard context handed to checks

#[derive(Default)]
pub struct Ctx {
    pub labels: BTreeMap<String, u64>,
    pub nontrivial: HashSet<u64>,
    pub samples: Vec<Value>,
    pub evaluations: u64,
    /// Free-form counters that are summed (e.g. excluded_by_known_finding, tie_ambiguous).
    pub counters: BTreeMap<String, u64>,
    pub frozen: bool,
    pub max_samples: usize,
    /// Replay mode: exclusions for open known findings are switched off so that the committed
    /// reproduction of a finding actually exercises it.
    pub strict: bool,
}

impl Ctx {
    pub fn new() -> Self {
        Self {
            max_samples: 3,
            ..Default::default()
        }
    }
    #[inline]
    pub fn label(&mut self, name: &str) {
        if !self.frozen {
            *self.labels.entry(name.to_string()).or_insert(0) += 1;
        }
    }
    #[inline]
    pub fn label_if(&mut self, cond: bool, name: &str) {
        if cond {
            self.label(name);
        }
    }
    #[inline]
    pub fn count(&mut self, name: &str, n: u64) {
        if !self.frozen {
            *self.counters.entry(name.to_string()).or_insert(0) += n;
        }
    }
    /// Counts one evaluation (one oracle judgement on one generated input).
    #[inline]
    pub fn eval(&mut self) {
        if !self.frozen {
            self.evaluations += 1;
        }
    }
    /// Registers a non-trivial case by a hash of its canonical rendering.
    pub fn nontrivial<H: Hash>(&mut self, key: &H) {
        if !self.frozen {
            self.nontrivial.insert(hash64(key));
        }
    }
    pub fn sample(&mut self, v: impl FnOnce() -> Value) {
        if !self.frozen && self.samples.len() < self.max_samples {
            self.samples.push(v());
        }
    }
}

pub fn hash64<H: Hash>(h: &H) -> u64 {
    // FNV-1a over the std Hash stream; deterministic across runs (no random keys).
    struct Fnv(u64);
    impl Hasher for Fnv {
        fn finish(&self) -> u64 {
            self.0
        }
        fn write(&mut self, bytes: &[u8]) {
            for &b in bytes {
                self.0 ^= u64::from(b);
                self.0 = self.0.wrapping_mul(0x100000001b3);
            }
        }
    }
    let mut f = Fnv(0xcbf29ce484222325);
    h.hash(&mut f);
    // final avalanche
    let mut x = f.finish();
    x ^= x >> 33;
    x = x.wrapping_mul(0xff51afd7ed558ccd);
    x ^= x >> 33;
    x
}

pub fn splitmix(mut x: u64) -> u64 {
    x = x.wrapping_add(0x9E3779B97F4A7C15);
    let mut z = x;
    z = (z ^ (z >> 30)).wrapping_mul(0xBF58476D1CE4E5B9);
    z = (z ^ (z >> 27)).wrapping_mul(0x94D049BB133111EB);
    z ^ (z >> 31)
}

// ---------------------------------------------------------------------------------------------
// Report

#[derive(Clone, Debug)]
pub struct Violation {
    pub sub: String,
    pub reason: String,
    pub replay: PathBuf,
}

pub struct Report {
    pub property: &'static str,
    pub level: &'static str,
    pub started: Instant,
    pub evaluations: u64,
    pub nontrivial: u64,
    pub labels: BTreeMap<String, u64>,
    pub counters: BTreeMap<String, u64>,
    pub samples: Vec<Value>,
    pub rules: Vec<String>,
    pub assumptions: Vec<String>,
    pub violations: Vec<Violation>,
    pub known_findings: Vec<String>,
    pub notes: Vec<String>,
    pub exhaustive: Option<bool>,
    pub subs: Vec<Value>,
}

impl Report {
    pub fn new(property: &'static str, level: &'static str) -> Self {
        Self {
            property,
            level,
            started: Instant::now(),
            evaluations: 0,
            nontrivial: 0,
            labels: BTreeMap::new(),
            counters: BTreeMap::new(),
            samples: vec![],
            rules: vec![],
            assumptions: vec![],
            violations: vec![],
            known_findings: vec![],
            notes: vec![],
            exhaustive: None,
            subs: vec![],
        }
    }

    pub fn absorb(&mut self, sub: &str, ctx: Ctx) {
        self.evaluations += ctx.evaluations;
        self.nontrivial += ctx.nontrivial.len() as u64;
        for (k, v) in ctx.labels {
            *self.labels.entry(format!("{sub}.{k}")).or_insert(0) += v;
        }
        for (k, v) in ctx.counters {
            *self.counters.entry(format!("{sub}.{k}")).or_insert(0) += v;
        }
        for s in ctx.samples {
            if self.samples.len() < 12 {
                self.samples.push(json!({"sub": sub, "case": s}));
            }
        }
    }

    /// Merges the results of the libFuzzer campaigns run by the `check` driver (one JSON object
    /// per line in $VERIF_FUZZ_RESULTS).
    pub fn absorb_fuzz_results(&mut self) {
        let Ok(path) = std::env::var("VERIF_FUZZ_RESULTS") else { return };
        let Ok(text) = std::fs::read_to_string(&path) else { return };
        for line in text.lines() {
            let Ok(v) = serde_json::from_str::<Value>(line) else { continue };
            if v["property"].as_str() != Some(self.property) {
                continue;
            }
            let target = v["target"].as_str().unwrap_or("?").to_string();
            let execs = v["executions"].as_u64().unwrap_or(0);
            self.evaluations += execs;
            self.subs.push(json!({"sub": format!("libfuzzer_{target}"), "executions": execs, "new_coverage_units": v["new_coverage_units"],
                "runs_requested": v["runs_requested"], "engine": "libFuzzer (cargo-fuzz, ASan), 8 instances, fresh corpus seeded from fuzz/seeds"}));
            if let Some(r) = v["violation_replay"].as_str().filter(|s| !s.is_empty()) {
                self.violations.push(Violation {
                    sub: format!("libfuzzer_{target}"),
                    reason: format!("fuzz target {target} failed its in-target oracle (see the REASON line of the driver)"),
                    replay: PathBuf::from(r),
                });
            }
        }
    }

    pub fn write_evidence(&self, opts: &Opts) {
        let mut coverage = json!({
            "evaluations": self.evaluations,
            "distinct_nontrivial": self.nontrivial,
            "rule": self.rules.join(" || "),
            "samples": self.samples,
            "labels": self.labels,
            "counters": self.counters,
            "sub_checks": self.subs,
            "known_findings_reported": self.known_findings,
            "notes": self.notes,
        });
        if let Some(e) = self.exhaustive {
            coverage["exhaustive"] = json!(e);
        }
        let ev = json!({
            "property_id": self.property,
            "tier": opts.tier.name(),
            "seed": opts.seed,
            "level": self.level,
            "coverage": coverage,
            "assumptions": self.assumptions,
            "wall_s": self.started.elapsed().as_secs_f64(),
            "violations": self.violations.len(),
        });
        let dir = std::env::var("VERIF_EVIDENCE_DIR")
            .map(PathBuf::from)
            .unwrap_or_else(|_| opts.verif_dir.join("evidence"));
        let _ = std::fs::create_dir_all(&dir);
        let path = dir.join(format!("{}.json", self.property));
        let tmp = dir.join(format!(".{}.json.tmp", self.property));
        std::fs::write(&tmp, serde_json::to_string_pretty(&ev).unwrap()).expect("write evidence");
        std::fs::rename(&tmp, &path).expect("rename evidence");
    }
}

// ---------------------------------------------------------------------------------------------
// Sub-checks

/// One generated-input check: a strategy, an oracle and a replay format (the case as JSON).
pub trait Sub: Sync {
    type Case: Clone + Debug + Serialize + DeserializeOwned + Send + 'static;
    fn name(&self) -> &'static str;
    fn strategy(&self, tier: Tier) -> BoxedStrategy<Self::Case>;
    /// Oracle. `Err(reason)` is a violation of the property on this case.
    fn check(&self, case: &Self::Case, ctx: &mut Ctx) -> Result<(), String>;
    /// How cases are generated and what makes one non-trivial.
    fn rule(&self) -> String;
    /// Shrink budget (expensive checks lower it).
    fn max_shrink_iters(&self) -> u32 {
        3000
    }
}

#[derive(Serialize, serde::Deserialize)]
pub struct ReplayFile {
    pub property: String,
    pub sub: String,
    pub reason: String,
    pub case: Value,
}

pub fn out_dir(opts: &Opts) -> PathBuf {
    let d = std::env::var("VERIF_REPLAY_OUT")
        .map(PathBuf::from)
        .unwrap_or_else(|_| opts.verif_dir.join("out").join("replays"));
    let _ = std::fs::create_dir_all(&d);
    d
}

pub fn write_replay<C: Serialize>(
    opts: &Opts,
    property: &str,
    sub: &str,
    reason: &str,
    case: &C,
    tag: &str,
) -> PathBuf {
    let rf = ReplayFile {
        property: property.to_string(),
        sub: sub.to_string(),
        reason: reason.to_string(),
        case: serde_json::to_value(case).unwrap(),
    };
    let path = out_dir(opts).join(format!("{property}-{sub}-{tag}.json"));
    std::fs::write(&path, serde_json::to_string_pretty(&rf).unwrap()).expect("write replay");
    path
}

/// Runs `check` on a case under a panic guard (harness-side panics are reported too, so that a
/// reference-model bug cannot silently pass).
fn checked<S: Sub>(s: &S, case: &S::Case, ctx: &mut Ctx) -> Result<(), String> {
    match guard(|| s.check(case, ctx)) {
        Ok(r) => r,
        Err(p) => Err(format!("unexpected {p}")),
    }
}

/// Runs one sub-check: sharded generated search. Returns true if no violation was found.
pub fn run_sub<S: Sub>(s: &S, opts: &Opts, total_cases: u32, report: &mut Report) -> bool {
    let total_cases = ((f64::from(total_cases) * opts.scale).ceil() as u32).max(1);
    let shards = opts.threads.max(1).min(total_cases as usize);
    let per_shard = total_cases.div_ceil(shards as u32);
    let stop = Arc::new(AtomicBool::new(false));
    let results: Mutex<Vec<(Ctx, Option<(String, S::Case, usize)>)>> = Mutex::new(vec![]);
    let sub_seed = hash64(&(report.property, s.name()));
    let t0 = Instant::now();
    let property = report.property;

    std::thread::scope(|scope| {
        for shard in 0..shards {
            let stop = stop.clone();
            let results = &results;
            // (64 MiB stacks: building a lexicon recurses once per character of a surface)
            let builder = std::thread::Builder::new().name(format!("shard{shard}")).stack_size(64 << 20);
            let _handle = builder.spawn_scoped(scope, move || {
                let seed = splitmix(opts.seed ^ sub_seed ^ splitmix(shard as u64 + 1));
                let mut seed_bytes = [0u8; 32];
                for (i, chunk) in seed_bytes.chunks_mut(8).enumerate() {
                    chunk.copy_from_slice(&splitmix(seed.wrapping_add(i as u64)).to_le_bytes());
                }
                let config = Config {
                    cases: per_shard,
                    failure_persistence: None,
                    max_shrink_iters: s.max_shrink_iters(),
                    max_global_rejects: 1_000_000,
                    ..Config::default()
                };
                let _ = RngSeed::Random; // (seed is injected through the explicit RNG below)
                let rng = proptest::test_runner::TestRng::from_seed(RngAlgorithm::ChaCha, &seed_bytes);
                let mut runner = TestRunner::new_with_rng(config, rng);
                let ctx = RefCell::new(Ctx::new());
                // diagnostics only: VERIF_SLOW=<seconds> prints cases whose check took longer (stderr)
                let slow_limit: Option<f64> = std::env::var("VERIF_SLOW").ok().and_then(|v| v.parse().ok());
                let strategy = s.strategy(opts.tier);
                let res = runner.run(&strategy, |case| {
                    if stop.load(Ordering::Relaxed) && !ctx.borrow().frozen {
                        // Another shard failed: finish quickly (cases pass trivially).
                        return Ok(());
                    }
                    let mut c = ctx.borrow_mut();
                    let t_case = std::time::Instant::now();
                    let r_case = checked(s, &case, &mut c);
                    if let Some(limit) = slow_limit {
                        let el = t_case.elapsed().as_secs_f64();
                        if el > limit {
                            let dbg = format!("{case:?}");
                            eprintln!("SLOW sub={} {:.2}s case={}", s.name(), el, dbg.chars().take(1500).collect::<String>());
                        }
                    }
                    match r_case {
                        Ok(()) => Ok(()),
                        Err(reason) => {
                            // Stop counting: shrinking re-executes the closure.
                            c.frozen = true;
                            Err(TestCaseError::fail(reason))
                        }
                    }
                });
                let fail = match res {
                    Ok(()) => None,
                    Err(TestError::Fail(reason, case)) => {
                        stop.store(true, Ordering::Relaxed);
                        Some((reason.message().to_string(), case, shard))
                    }
                    Err(TestError::Abort(reason)) => {
                        eprintln!(
                            "INCONCLUSIVE property={} sub={} generator aborted: {}",
                            property,
                            s.name(),
                            reason.message()
                        );
                        std::process::exit(2);
                    }
                };
                results.lock().unwrap().push((ctx.into_inner(), fail));
            })
            .unwrap_or_else(|e| {
                println!("INCONCLUSIVE cannot spawn a shard thread: {e}");
                std::process::exit(2);
            });
        }
    });

    let mut ok = true;
    let mut results = results.into_inner().unwrap();
    results.sort_by_key(|(_, f)| f.as_ref().map(|x| x.2).unwrap_or(usize::MAX));
    let mut merged = Ctx::new();
    merged.max_samples = 4;
    for (ctx, fail) in results {
        merged.evaluations += ctx.evaluations;
        merged.nontrivial.extend(ctx.nontrivial);
        for (k, v) in ctx.labels {
            *merged.labels.entry(k).or_insert(0) += v;
        }
        for (k, v) in ctx.counters {
            *merged.counters.entry(k).or_insert(0) += v;
        }
        for smp in ctx.samples {
            if merged.samples.len() < merged.max_samples {
                merged.samples.push(smp);
            }
        }
        if let Some((reason, case, shard)) = fail {
            if ok {
                // Re-run the shrunk case once more to get the reason of the *shrunk* case.
                let mut scratch = Ctx::new();
                scratch.frozen = true;
                let reason2 = checked(s, &case, &mut scratch).err().unwrap_or(reason);
                let path = write_replay(
                    opts,
                    report.property,
                    s.name(),
                    &reason2,
                    &case,
                    &format!("seed{}-shard{}", opts.seed, shard),
                );
                report.violations.push(Violation {
                    sub: s.name().to_string(),
                    reason: reason2,
                    replay: path,
                });
                ok = false;
            }
        }
    }
    report.subs.push(json!({
        "sub": s.name(),
        "cases_requested": total_cases,
        "evaluations": merged.evaluations,
        "distinct_nontrivial": merged.nontrivial.len(),
        "wall_s": t0.elapsed().as_secs_f64(),
    }));
    report.rules.push(format!("[{}] {}", s.name(), s.rule()));
    report.absorb(s.name(), merged);
    ok
}

/// Outcome expected from a committed replay.
pub enum Expect {
    /// A fixed defect or a golden case: the check must pass.
    Pass,
    /// An open known finding: the check is expected to fail with a reason containing `sig`.
    KnownFinding { what: String, sig: String },
}

/// Runs a committed replay file through the oracle without proptest.
pub fn run_replay_file<S: Sub>(
    s: &S,
    path: &Path,
    expect: &Expect,
    report: &mut Report,
) -> Result<(), String> {
    let text = std::fs::read_to_string(path).map_err(|e| format!("{path:?}: {e}"))?;
    let rf: ReplayFile = serde_json::from_str(&text).map_err(|e| format!("{path:?}: {e}"))?;
    let case: S::Case = serde_json::from_value(rf.case).map_err(|e| format!("{path:?}: {e}"))?;
    let mut ctx = Ctx::new();
    ctx.max_samples = 0;
    ctx.strict = true;
    let res = checked(s, &case, &mut ctx);
    report.evaluations += ctx.evaluations.max(1);
    *report
        .counters
        .entry(format!("{}.replays_run", s.name()))
        .or_insert(0) += 1;
    match (expect, res) {
        (Expect::Pass, Ok(())) => Ok(()),
        (Expect::Pass, Err(reason)) => {
            report.violations.push(Violation {
                sub: s.name().to_string(),
                reason,
                replay: path.to_path_buf(),
            });
            Ok(())
        }
        (Expect::KnownFinding { what, sig }, Err(reason)) => {
            if reason.contains(sig.as_str()) {
                report.known_findings.push(what.clone());
            } else {
                // Fails, but differently from the recorded finding: a new violation.
                report.violations.push(Violation {
                    sub: s.name().to_string(),
                    reason,
                    replay: path.to_path_buf(),
                });
            }
            Ok(())
        }
        (Expect::KnownFinding { what, .. }, Ok(())) => {
            report
                .notes
                .push(format!("known finding no longer reproduces: {what}"));
            Ok(())
        }
    }
}

/// Strict replay of an arbitrary replay file (used by `--replay`): prints the outcome.
pub fn strict_replay<S: Sub>(s: &S, path: &Path) -> Option<Result<(), String>> {
    let text = std::fs::read_to_string(path).ok()?;
    let rf: ReplayFile = serde_json::from_str(&text).ok()?;
    if rf.sub != s.name() {
        return None;
    }
    let case: S::Case = match serde_json::from_value(rf.case) {
        Ok(c) => c,
        Err(e) => return Some(Err(format!("cannot decode case: {e}"))),
    };
    let mut ctx = Ctx::new();
    ctx.strict = true;
    Some(checked(s, &case, &mut ctx))
}

/// Index mapping that shrinks monotonically (DESIGN 2.3): `raw` uniform in u16.
#[inline]
pub fn pick(raw: u16, len: usize) -> usize {
    debug_assert!(len > 0);
    (usize::from(raw) * len) >> 16
}

pub fn boxed<S: Strategy + 'static>(s: S) -> BoxedStrategy<S::Value> {
    s.boxed()
}

/// Watchdog: exits with code 2 when the whole run exceeds its budget.
pub fn start_watchdog(secs: u64, property: &'static str) {
    std::thread::spawn(move || {
        std::thread::sleep(std::time::Duration::from_secs(secs));
        println!("INCONCLUSIVE property={property} watchdog fired after {secs}s");
        std::process::exit(2);
    });
}
