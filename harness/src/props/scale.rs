//! C02/C03 at the 2^16 boundaries: dictionaries in which more than 65535 candidate nodes end at
//! one sentence position (homographs, words from several start positions, unknown entries) or a
//! category has more than 65536 unk.def entries. The case is a handful of integers that expand to
//! an ordinary `TokCase`, so the replay file stays small and shrinking minimises the counts.
use proptest::prelude::*;
use serde::{Deserialize, Serialize};

use crate::engine::{Ctx, Sub, Tier};
use crate::gen::dict::{CatSpec, CharDef, ConnSpec, DictSpec, LexRow, MatrixSpec, RangeSpec, TokOpts, UnkRow};
use crate::props::c02::{LatticeCheck, Which};
use crate::props::common::TokCase;

#[derive(Clone, Debug, Serialize, Deserialize, PartialEq, Eq, Hash)]
pub struct ScaleCase {
    /// lexicon rows whose surface ends with the single 'a' of every sentence
    pub n_lex: u32,
    /// 1: all of them have the surface "a"; 3: spread over "a", "ba", "cba" (three start positions, one end)
    pub spread: u8,
    /// rows i with i % 4 < user_part go to the user lexicon
    pub user_part: u8,
    /// unk.def entries of the category of 'a' (invoke = 1, length = 1)
    pub n_unk: u32,
    /// the category of 'a' comes after another category with entries (its word ids start at an offset)
    pub unk_cat_last: bool,
    /// the distinguished cheap node among (lexicon rows ++ unknown entries), counted from the end when `cheap_from_end`
    pub cheap: u32,
    pub cheap_from_end: bool,
    /// derives the remaining costs and ids
    pub salt: u16,
    /// 3×3 connection costs
    pub matrix: Vec<i16>,
    pub group: bool,
}

const SENTENCES: &[&str] = &["cbad", "a", "ad", "cba", "dcbad", "漢a漢", "d", ""];

impl ScaleCase {
    pub fn expand(&self) -> TokCase {
        let total = self.n_lex + self.n_unk;
        let cheap = if total == 0 {
            0
        } else if self.cheap_from_end {
            total - 1 - self.cheap % total.min(8)
        } else {
            self.cheap % total
        };
        let salt = u32::from(self.salt);
        let cost_of = |i: u32| -> i16 {
            if i == cheap {
                -200
            } else {
                100 + ((i.wrapping_mul(7) + salt) % 11) as i16
            }
        };
        let ids_of = |i: u32| -> (u16, u16) { (((i + salt) % 3) as u16, ((i / 3 + salt) % 3) as u16) };
        let mut lex = vec![];
        let mut user = vec![];
        for i in 0..self.n_lex {
            let surface = match if self.spread == 3 { i % 3 } else { 0 } {
                0 => "a",
                1 => "ba",
                _ => "cba",
            };
            let (left, right) = ids_of(i);
            let row = LexRow { surface: surface.into(), left, right, cost: cost_of(i), feature: format!("L{i}") };
            if (i % 4) < u32::from(self.user_part) {
                user.push(row);
            } else {
                lex.push(row);
            }
        }
        for (k, s) in ["d", "b", "c", "cb", "漢"].iter().enumerate() {
            let (left, right) = ids_of(k as u32 + 1);
            lex.push(LexRow { surface: (*s).into(), left, right, cost: 50 + k as i16, feature: format!("W{k}") });
        }
        // categories: DEFAULT, SPACE, then the category of 'a' (XA) and of 'b'..'d' (YB) in either order
        let xa = CatSpec { name: "XA".into(), invoke: true, group: self.group, length: 1 };
        let yb = CatSpec { name: "YB".into(), invoke: false, group: true, length: 0 };
        let (ixa, iyb, third, fourth) = if self.unk_cat_last { (3, 2, yb, xa) } else { (2, 3, xa, yb) };
        let cats = vec![
            CatSpec { name: "DEFAULT".into(), invoke: false, group: true, length: 0 },
            CatSpec { name: "SPACE".into(), invoke: false, group: true, length: 0 },
            third,
            fourth,
        ];
        let ranges = vec![
            RangeSpec { start: 0x20, end: 0x20, cats: vec![1] },
            RangeSpec { start: 0x61, end: 0x61, cats: vec![ixa] },
            RangeSpec { start: 0x62, end: 0x64, cats: vec![iyb] },
        ];
        let mut unk = vec![
            UnkRow { cat: 0, left: 0, right: 0, cost: 300, feature: "U,DEFAULT".into() },
            UnkRow { cat: 1, left: 0, right: 0, cost: 10, feature: "U,SPACE".into() },
            UnkRow { cat: iyb, left: 1, right: 2, cost: 250, feature: "U,YB0".into() },
            UnkRow { cat: iyb, left: 2, right: 1, cost: 251, feature: "U,YB1".into() },
        ];
        for j in 0..self.n_unk.max(1) {
            let i = self.n_lex + j;
            let (left, right) = ids_of(i);
            unk.push(UnkRow { cat: ixa, left, right, cost: cost_of(i), feature: format!("X{j}") });
        }
        let mut cells = vec![];
        for r in 0..3u16 {
            for l in 0..3u16 {
                cells.push((r, l, self.matrix[usize::from(r * 3 + l) % self.matrix.len().max(1)]));
            }
        }
        TokCase {
            spec: DictSpec {
                chardef: CharDef { cats, ranges, style: 0 },
                unk,
                lex,
                conn: ConnSpec::Matrix(MatrixSpec { num_right: 3, num_left: 3, cells }),
                csv_style: 0,
            },
            user: if user.is_empty() { None } else { Some(user) },
            mapping: None,
            opts: vec![TokOpts { ignore_space: false, max_grouping_len: 0, history: 0 }],
            sentences: SENTENCES.iter().map(|s| s.to_string()).collect(),
        }
    }
}

fn boundary() -> impl Strategy<Value = u32> {
    prop_oneof![6 => 65_533u32..=65_541, 2 => 131_069u32..=131_075, 1 => 1u32..=12]
}

pub fn scale_case() -> BoxedStrategy<ScaleCase> {
    (
        (0u8..4, boundary(), 0u32..=4, 20_000u32..=45_000),
        prop_oneof![Just(1u8), Just(3u8)],
        0u8..=2,
        any::<bool>(),
        (any::<u32>(), prop::bool::weighted(0.75)),
        any::<u16>(),
        proptest::collection::vec(-30i16..=30, 9),
        any::<bool>(),
    )
        .prop_map(|((mode, n, small, part), spread, user_part, unk_cat_last, (cheap, cheap_from_end), salt, matrix, group)| {
            let (n_lex, n_unk) = match mode {
                0 | 1 => (n, small.max(1)),              // homographs / several starts
                2 => (small, n),                         // unknown entries of one category
                _ => (part.min(n - 1), n - part.min(n - 1)), // the two together cross the boundary
            };
            ScaleCase { n_lex, spread, user_part, n_unk, unk_cat_last, cheap, cheap_from_end, salt, matrix, group }
        })
        .boxed()
}

pub struct Scale {
    pub which: Which,
}

impl Sub for Scale {
    type Case = ScaleCase;
    fn name(&self) -> &'static str {
        match self.which {
            Which::Optimality => "optimality_scale",
            Which::Candidates => "candidates_scale",
        }
    }
    fn max_shrink_iters(&self) -> u32 {
        60
    }
    fn strategy(&self, _tier: Tier) -> BoxedStrategy<ScaleCase> {
        scale_case()
    }
    fn rule(&self) -> String {
        format!(
            "dictionaries around the 16-bit boundaries: n ∈ 65533..65541 ∪ 131069..131075 (∪ 1..12) rows ending at the one 'a' of each sentence — homographs of \"a\", or spread over \"a\"/\"ba\"/\"cba\" \
             (three starts, one end), optionally 1-2 quarters of them in the user lexicon — or n unk.def entries of the category of 'a' (placed before or after another category with entries), or both together \
             crossing the boundary; one distinguished cheap node, 75% among the last eight; 3×3 matrix; sentences {SENTENCES:?}; oracle: the ordinary {} oracle on the expanded case; \
             non-trivial = more than 65535 nodes end at one position or a category has more than 65536 unknown entries; distinct = hash(case)",
            match self.which {
                Which::Optimality => "C02 (independent recurrence over the dumped nodes, reported path total == optimum, running totals recomputed from the dictionary)",
                Which::Candidates => "C03 (multiset equality of the lattice candidates with the literal rule, reported tokens are candidates)",
            }
        )
    }
    fn check(&self, case: &ScaleCase, ctx: &mut Ctx) -> Result<(), String> {
        let tc = case.expand();
        let inner = LatticeCheck { which: self.which, exclusive_space: false, resources: false };
        inner.check_case(&tc, ctx)?;
        let at_boundary = u64::from(case.n_lex) + u64::from(case.n_unk);
        ctx.label_if(case.n_lex > 65_535, "more_than_65535_lexicon_rows_end_at_one_position");
        ctx.label_if(case.n_unk > 65_536, "more_than_65536_unknown_entries_in_one_category");
        ctx.label_if(case.n_lex <= 65_535 && case.n_unk <= 65_535 && at_boundary > 65_535, "lexicon_and_unknown_nodes_together_cross_65535");
        ctx.label_if(case.spread == 3, "three_starts_one_end");
        ctx.label_if(case.user_part > 0, "user_lexicon");
        ctx.label_if(case.unk_cat_last, "unknown_word_ids_offset_by_another_category");
        ctx.label_if(at_boundary > 131_071, "beyond_2^17");
        if at_boundary > 65_535 {
            ctx.nontrivial(case);
        }
        ctx.sample(|| serde_json::to_value(case).unwrap());
        Ok(())
    }
}

// ---------------------------------------------------------------------------------------------
// Homograph counts around 2^8 and 2^16 (posting lists): used by C05 (round trip) and C11 (rows)

#[derive(Clone, Debug, Serialize, Deserialize, PartialEq, Eq, Hash)]
pub struct HomographCase {
    /// rows with the surface "a" in the system lexicon
    pub n_sys: u32,
    /// rows with the surface "a" in the user lexicon (0 = no user lexicon)
    pub n_user: u32,
    /// rows with other surfaces placed before the homographs (shifts the word ids)
    pub before: u32,
    /// a second surface with this many homographs after them ("b")
    pub n_second: u32,
    pub cheap: u32,
    pub salt: u16,
    /// C05 only: 0 = no further operation, 1 = write/read once more, 2 = clear the user lexicon, 3 = id mapping
    pub op: u8,
}

impl HomographCase {
    fn row(&self, surface: &str, i: u32, tag: &str) -> LexRow {
        let salt = u32::from(self.salt);
        LexRow {
            surface: surface.into(),
            left: ((i + salt) % 3) as u16,
            right: ((i / 3 + salt) % 3) as u16,
            cost: if i == self.cheap { -300 } else { 100 + ((i.wrapping_mul(13) + salt) % 17) as i16 },
            feature: format!("{tag}{i}"),
        }
    }
    pub fn sys_rows(&self) -> Vec<LexRow> {
        let mut lex = vec![];
        for k in 0..self.before {
            lex.push(self.row(&format!("w{k}"), 1_000_000 + k, "W"));
        }
        for i in 0..self.n_sys {
            lex.push(self.row("a", i, "S"));
        }
        for i in 0..self.n_second {
            lex.push(self.row("b", 500_000 + i, "B"));
        }
        if lex.is_empty() {
            lex.push(self.row("zz", 2_000_000, "Z"));
        }
        lex
    }
    pub fn user_rows(&self) -> Vec<LexRow> {
        (0..self.n_user).map(|i| self.row("a", self.n_sys + i, "U")).collect()
    }
    pub fn to_tokcase(&self) -> TokCase {
        let cats = vec![
            CatSpec { name: "DEFAULT".into(), invoke: true, group: true, length: 0 },
            CatSpec { name: "SPACE".into(), invoke: false, group: true, length: 0 },
        ];
        let unk = vec![
            UnkRow { cat: 0, left: 0, right: 0, cost: 400, feature: "U,DEFAULT".into() },
            UnkRow { cat: 1, left: 0, right: 0, cost: 10, feature: "U,SPACE".into() },
        ];
        let mut cells = vec![];
        for r in 0..3u16 {
            for l in 0..3u16 {
                cells.push((r, l, ((i32::from(self.salt) + i32::from(r) * 7 + i32::from(l) * 3) % 41 - 20) as i16));
            }
        }
        let user = self.user_rows();
        TokCase {
            spec: DictSpec {
                chardef: CharDef { cats, ranges: vec![RangeSpec { start: 0x20, end: 0x20, cats: vec![1] }], style: 0 },
                unk,
                lex: self.sys_rows(),
                conn: ConnSpec::Matrix(MatrixSpec { num_right: 3, num_left: 3, cells }),
                csv_style: 0,
            },
            user: if user.is_empty() { None } else { Some(user) },
            mapping: None,
            opts: vec![TokOpts { ignore_space: false, max_grouping_len: 0, history: 0 }],
            sentences: ["a", "ab", "ba", "w0a", "b", "xay", ""].iter().map(|s| s.to_string()).collect(),
        }
    }
}

fn homograph_count() -> impl Strategy<Value = u32> {
    prop_oneof![6 => 252u32..=259, 2 => 65_533u32..=65_539, 1 => 510u32..=514, 2 => 0u32..=5]
}

pub fn homograph_case() -> BoxedStrategy<HomographCase> {
    (homograph_count(), homograph_count(), prop_oneof![2 => Just(0u32), 2 => 1u32..=300, 1 => 65_000u32..=66_000], homograph_count(), any::<u32>(), any::<u16>(), 0u8..4)
        .prop_map(|(n_sys, n_user, before, n_second, cheap, salt, op)| {
            // keep at most one of the three counts in the 2^16 region (time)
            let n_user = if n_sys > 60_000 { n_user.min(514) } else { n_user };
            let n_second = if n_sys > 60_000 || n_user > 60_000 { n_second % 260 } else { n_second };
            let total = (n_sys + n_user).max(1);
            HomographCase { n_sys, n_user, before, n_second, cheap: cheap % total, salt, op }
        })
        .boxed()
}

/// C05: the ordinary round-trip oracle on dictionaries with 252-259 / 510-514 / 65533-65539 homographs.
pub struct RoundTripScale;

impl Sub for RoundTripScale {
    type Case = HomographCase;
    fn name(&self) -> &'static str {
        "roundtrip_scale"
    }
    fn max_shrink_iters(&self) -> u32 {
        100
    }
    fn strategy(&self, _tier: Tier) -> BoxedStrategy<HomographCase> {
        homograph_case()
    }
    fn rule(&self) -> String {
        "compact cases: the surface \"a\" has n_sys rows in the system lexicon and n_user rows in the user lexicon, a second surface n_second rows, each count drawn from 252..259 (6/11), 65533..65539, 510..514, 0..5; \
         0 / 1..300 / 65000..66000 other rows before them; followed by nothing, a second write/read, clearing the user lexicon or an id mapping; oracle: the 'roundtrip' oracle (bytes, tokens, costs, later operations); \
         non-trivial = a posting list of 255 or more ids; distinct = hash(case)".into()
    }
    fn check(&self, case: &HomographCase, ctx: &mut Ctx) -> Result<(), String> {
        use crate::props::dictops::DOp;
        let base = case.to_tokcase();
        let ops = match case.op {
            0 => vec![],
            1 => vec![DOp::WriteRead],
            2 => vec![DOp::ClearUser, DOp::WriteRead],
            _ => vec![DOp::Map(vec![2, 1], vec![2, 1]), DOp::WriteRead],
        };
        let rt = crate::props::c05::RtCase { base, rt_at: 0, ops };
        crate::props::c05::RoundTrip.check_case(&rt, ctx)?;
        for (n, what) in [(case.n_sys, "system"), (case.n_user, "user"), (case.n_second, "second_surface")] {
            ctx.label_if(n == 255, &format!("exactly_255_{what}"));
            ctx.label_if(n == 256, &format!("exactly_256_{what}"));
            ctx.label_if(n >= 65_535, &format!("ge_65535_{what}"));
        }
        if case.n_sys.max(case.n_user).max(case.n_second) >= 255 {
            ctx.nontrivial(case);
        }
        ctx.sample(|| serde_json::to_value(case).unwrap());
        Ok(())
    }
}

/// C11: the ordinary row oracle on lexicons with that many homographs.
pub struct RowsScale;

impl Sub for RowsScale {
    type Case = HomographCase;
    fn name(&self) -> &'static str {
        "rows_scale"
    }
    fn max_shrink_iters(&self) -> u32 {
        100
    }
    fn strategy(&self, _tier: Tier) -> BoxedStrategy<HomographCase> {
        homograph_case()
    }
    fn rule(&self) -> String {
        "compact cases as in C05's roundtrip_scale (252..259 / 510..514 / 65533..65539 / 0..5 rows sharing the surface \"a\", a second surface \"b\", 0..66000 other rows before them), read as the system lexicon \
         or (op odd) as a user lexicon; oracle: the 'rows' oracle — word_feature(k) of every kept row, and the lattice of each surface holds exactly the rows with that surface (ids, cost, row number); \
         non-trivial = ≥ 255 rows share a surface; distinct = hash(case)".into()
    }
    fn check(&self, case: &HomographCase, ctx: &mut Ctx) -> Result<(), String> {
        use crate::props::c11::{CsvCase, CsvRow, Rows};
        // the row oracle is quadratic in the number of distinct surfaces: at most 400 other rows here
        // (C05's roundtrip_scale keeps the large word-id offsets)
        let capped = HomographCase { before: case.before.min(400), ..case.clone() };
        let rows = capped.sys_rows();
        let cc = CsvCase {
            rows: rows
                .into_iter()
                .map(|r| CsvRow { surface: r.surface, left: r.left, right: r.right, cost: r.cost, tail: r.feature, quote_surface: false, blank_after: 0 })
                .collect(),
            num_right: 3,
            num_left: 3,
            final_newline: case.salt % 2 == 0,
            leading_blank: false,
            as_user: case.op % 2 == 1,
        };
        Rows.check_case(&cc, ctx)?;
        let n = case.n_sys;
        ctx.label_if(n == 255, "exactly_255_homographs");
        ctx.label_if(n == 256, "exactly_256_homographs");
        ctx.label_if(case.n_second == 255, "second_surface_exactly_255");
        ctx.label_if(n >= 65_535, "ge_65535_homographs");
        ctx.label_if(cc.as_user, "as_user_lexicon");
        if n.max(case.n_second) >= 255 {
            ctx.nontrivial(case);
        }
        ctx.sample(|| serde_json::to_value(case).unwrap());
        Ok(())
    }
}

// ---------------------------------------------------------------------------------------------
// C13 at scale: more than 2^16 nodes starting (and ending) at one position

pub struct ReorderScale;

impl Sub for ReorderScale {
    type Case = ScaleCase;
    fn name(&self) -> &'static str {
        "reorder_scale"
    }
    fn max_shrink_iters(&self) -> u32 {
        60
    }
    fn strategy(&self, _tier: Tier) -> BoxedStrategy<ScaleCase> {
        scale_case().prop_map(|mut c| {
            c.user_part = 0; // the reorder tool works on the system dictionary
            c
        }).boxed()
    }
    fn rule(&self) -> String {
        "the compact cases of C02's scale sub-check without a user lexicon (65533..65541 / 131069..131075 nodes starting and ending at the one 'a' of each sentence, as homographs, words from three starts or unknown entries), \
         lines: every sentence once, an empty line, the first two again; oracle: the 'reorder' oracle (id order and probabilities equal the reference recount after every line; the lists are accepted by the mapping function); \
         non-trivial = more than 65535 nodes start at one position; distinct = hash(case)".into()
    }
    fn check(&self, case: &ScaleCase, ctx: &mut Ctx) -> Result<(), String> {
        let base = case.expand();
        let n = base.sentences.len();
        let mut lines: Vec<usize> = (0..n).collect();
        lines.push(usize::MAX);
        lines.push(0);
        lines.push(1);
        let rc = crate::props::c13::ReorderCase { base, lines };
        crate::props::c13::Reorder.check(&rc, ctx)?;
        let total = u64::from(case.n_lex) + u64::from(case.n_unk);
        ctx.label_if(total > 65_535, "more_than_65535_nodes_start_at_one_position");
        ctx.label_if(case.spread == 3, "three_starts_one_end");
        if total > 65_535 {
            ctx.nontrivial(case);
        }
        Ok(())
    }
}
