//! Shared case type for the tokenization properties (C01, C02, C03, C12 ...).
use proptest::collection::vec;
use proptest::prelude::*;
use serde::{Deserialize, Serialize};

use crate::engine::guard;
use crate::gen::dict::{
    assemble_rows, assemble_sentence, dict_spec, raw_rows, raw_sentence, render_lex_rows,
    CostRegime, DictFiles, DictParams, DictSpec, LexRow, SpaceMode, TokOpts,
};
use crate::refmodel::RefChars;

/// Ordered list of ids (the i-th item, 1-based, is the old id that receives new id i).
pub type Mapping = (Vec<u16>, Vec<u16>);

#[derive(Clone, Debug, Serialize, Deserialize, PartialEq, Eq, Hash)]
pub struct TokCase {
    pub spec: DictSpec,
    pub user: Option<Vec<LexRow>>,
    pub mapping: Option<Mapping>,
    pub opts: Vec<TokOpts>,
    pub sentences: Vec<String>,
}

/// Permutation of 1..n (exclusive) from sort keys; all-zero keys give the identity.
pub fn perm_from_keys(keys: &[u16], n: usize) -> Vec<u16> {
    let mut ids: Vec<u16> = (1..n as u16).collect();
    ids.sort_by_key(|&i| (keys[usize::from(i) % keys.len()], i));
    ids
}

/// new id of each old id under a mapping list.
pub fn new_ids(list: &[u16]) -> Vec<u16> {
    let mut v = vec![0u16; list.len() + 1];
    for (i, &old) in list.iter().enumerate() {
        v[usize::from(old)] = (i + 1) as u16;
    }
    v
}

pub fn is_identity(list: &[u16]) -> bool {
    list.iter().enumerate().all(|(i, &x)| usize::from(x) == i + 1)
}

#[derive(Clone, Copy, Debug)]
pub struct TokCaseParams {
    pub dict: DictParams,
    pub n_sentences: usize,
    pub max_chunks: usize,
    pub max_chars: usize,
    pub with_user: bool,
    pub with_mapping: bool,
    /// Restrict ignore_space=true to dictionaries meeting the C12 precondition.
    pub space_only_if_exclusive: bool,
}

impl Default for TokCaseParams {
    fn default() -> Self {
        Self {
            dict: DictParams::default(),
            n_sentences: 6,
            max_chunks: 8,
            max_chars: 24,
            with_user: true,
            with_mapping: true,
            space_only_if_exclusive: false,
        }
    }
}

/// True iff every character with the SPACE category has SPACE alone and no lexicon or user
/// surface contains such a character (sufficient syntactic form of the C12 precondition).
pub fn c12_precondition(spec: &DictSpec, user: &[LexRow]) -> bool {
    let rc = RefChars { def: &spec.chardef };
    let Some(sp) = rc.space_idx() else {
        return false;
    };
    for r in &spec.chardef.ranges {
        if r.cats.contains(&sp) && r.cats.len() != 1 {
            return false;
        }
    }
    let bit = crate::refmodel::cat_bit(sp);
    for row in spec.lex.iter().chain(user.iter()) {
        if row.surface.chars().any(|c| rc.info(c).cats & bit != 0) {
            return false;
        }
    }
    true
}

pub fn has_space(spec: &DictSpec) -> bool {
    spec.chardef.cats.iter().any(|c| c.name == "SPACE")
}

pub fn tok_case(p: TokCaseParams) -> BoxedStrategy<TokCase> {
    let excl = p.dict.space == SpaceMode::Exclusive;
    (
        dict_spec(p.dict),
        if p.with_user {
            proptest::option::weighted(0.5, raw_rows(8, excl)).boxed()
        } else {
            Just(None).boxed()
        },
        if p.with_mapping {
            proptest::option::weighted(0.4, (vec(any::<u16>(), 8), vec(any::<u16>(), 8))).boxed()
        } else {
            Just(None).boxed()
        },
        vec((any::<bool>(), 0u8..10, 0u8..8), 2..=3),
        vec(raw_sentence(p.max_chunks), p.n_sentences),
        any::<i16>(),
    )
        .prop_map(move |(spec, user_raw, map_keys, raw_opts, raw_sents, uc)| {
            let nl = spec.conn.num_left();
            let nr = spec.conn.num_right();
            let regime = match uc.rem_euclid(3) {
                0 => CostRegime::Full,
                1 => CostRegime::Narrow,
                _ => CostRegime::Medium,
            };
            let user = user_raw.map(|raw| {
                // user rows may reuse system surfaces (homographs / overlaps)
                let mut rows = assemble_rows(&raw, nl, nr, regime, "W");
                for (i, r) in rows.iter_mut().enumerate() {
                    if i % 3 == 0 && !spec.lex.is_empty() {
                        r.surface = spec.lex[i % spec.lex.len()].surface.clone();
                    }
                }
                rows
            });
            let mapping = map_keys.map(|(lk, rk)| (perm_from_keys(&lk, nl), perm_from_keys(&rk, nr)));
            let user_rows: &[LexRow] = user.as_deref().unwrap_or(&[]);
            let space_ok = if p.space_only_if_exclusive {
                c12_precondition(&spec, user_rows)
            } else {
                has_space(&spec)
            };
            let mut opts: Vec<TokOpts> = raw_opts
                .iter()
                .map(|&(sp, g, history)| TokOpts {
                    history,
                    ignore_space: sp && space_ok,
                    max_grouping_len: match g {
                        0..=2 => 0,
                        3 | 4 => 1,
                        5 | 6 => 2,
                        7 => 3,
                        8 => 24,
                        _ => 1_000_000,
                    },
                })
                .collect();
            opts.dedup();
            let sentences = raw_sents
                .iter()
                .map(|r| {
                    let mut s = assemble_sentence(r, &spec, user_rows, p.max_chars);
                    crate::gen::dict::exclude_known_astral(&spec, &mut s);
                    s
                })
                .collect();
            TokCase {
                spec,
                user,
                mapping,
                opts,
                sentences,
            }
        })
        .boxed()
}

/// Builds the dictionary of a case: files → (+user) → (+mapping). `user_after` loads the user
/// lexicon after the mapping instead of before.
pub fn build_case_dict(
    files: &DictFiles,
    user: Option<&[LexRow]>,
    mapping: Option<&Mapping>,
    user_after: bool,
) -> Result<vibrato::Dictionary, String> {
    let r = guard(|| -> Result<vibrato::Dictionary, String> {
        let mut d = files.build().map_err(|e| format!("build failed: {e}"))?;
        let ucsv = user.map(|u| render_lex_rows(u, 0));
        if !user_after {
            if let Some(u) = &ucsv {
                d = d
                    .reset_user_lexicon_from_reader(Some(u.as_bytes()))
                    .map_err(|e| format!("user lexicon rejected: {e}"))?;
            }
        }
        if let Some((l, r)) = mapping {
            d = d
                .map_connection_ids_from_iter(l.iter().copied(), r.iter().copied())
                .map_err(|e| format!("mapping rejected: {e}"))?;
        }
        if user_after {
            if let Some(u) = &ucsv {
                d = d
                    .reset_user_lexicon_from_reader(Some(u.as_bytes()))
                    .map_err(|e| format!("user lexicon rejected: {e}"))?;
            }
        }
        Ok(d)
    });
    match r {
        Ok(x) => x,
        Err(p) => Err(format!("dictionary construction: {p}")),
    }
}

pub fn brief(case: &TokCase) -> serde_json::Value {
    let f = case.spec.render();
    serde_json::json!({
        "char.def": f.chardef,
        "lex.csv": f.lex,
        "unk.def": f.unk,
        "connector": case.spec.conn.kind(),
        "user.csv": case.user.as_ref().map(|u| render_lex_rows(u, 0)),
        "mapping": case.mapping,
        "opts": case.opts,
        "sentences": case.sentences,
    })
}
