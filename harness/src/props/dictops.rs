//! Shared helpers for properties over dictionary operation histories (C05, C06, C08, C13).
use serde::{Deserialize, Serialize};
use vibrato::verif_hooks as hooks;
use vibrato::Dictionary;

use crate::engine::guard;
use crate::gen::dict::{render_lex_rows, LexRow, TokOpts};
use crate::refmodel::{tokens_of, Tok};

/// Everything observable about a dictionary instance.
#[derive(Clone, Debug, PartialEq, Eq)]
pub struct Obs {
    pub num_left: usize,
    pub num_right: usize,
    /// cost[right * num_left + left]
    pub costs: Vec<i32>,
    /// tokens[opt][sentence]
    pub tokens: Vec<Vec<Vec<Tok>>>,
    pub image: Vec<u8>,
    pub has_user: bool,
    pub has_mapper: bool,
}

pub fn all_costs(d: &Dictionary) -> (usize, usize, Vec<i32>) {
    let nl = hooks::num_left(d);
    let nr = hooks::num_right(d);
    let mut v = Vec::with_capacity(nl * nr);
    for r in 0..nr {
        for l in 0..nl {
            v.push(hooks::conn_cost(d, r as u16, l as u16));
        }
    }
    (nl, nr, v)
}

pub fn write_image(d: &Dictionary) -> Result<Vec<u8>, String> {
    let mut buf = vec![];
    let n = d.write(&mut buf).map_err(|e| format!("write failed: {e}"))?;
    if n != buf.len() {
        return Err(format!("write reported {n} bytes but emitted {}", buf.len()));
    }
    Ok(buf)
}

pub fn read_image(buf: &[u8]) -> Result<Dictionary, String> {
    Dictionary::read(buf).map_err(|e| format!("read of a freshly written image failed: {e}"))
}

/// write → read → write must reproduce the bytes; returns the reloaded dictionary.
pub fn roundtrip(d: &Dictionary) -> Result<(Dictionary, Vec<u8>), String> {
    let buf = write_image(d)?;
    let d2 = read_image(&buf)?;
    let buf2 = write_image(&d2)?;
    if buf2 != buf {
        let pos = buf.iter().zip(&buf2).position(|(a, b)| a != b).unwrap_or(buf.len().min(buf2.len()));
        return Err(format!(
            "re-written image differs from the original ({} vs {} bytes, first difference at offset {pos})",
            buf2.len(),
            buf.len()
        ));
    }
    Ok((d2, buf))
}

/// Observes a dictionary (consumes it: the tokenizer takes ownership).
pub fn observe(d: Dictionary, sentences: &[String], opts: &[TokOpts]) -> Result<Obs, String> {
    let r = guard(|| -> Result<Obs, String> {
        let (num_left, num_right, costs) = all_costs(&d);
        let image = write_image(&d)?;
        let has_user = hooks::has_user_lexicon(&d);
        let has_mapper = hooks::has_mapper(&d);
        let mut tokenizer = vibrato::Tokenizer::new(d);
        let mut tokens = vec![];
        for o in opts {
            tokenizer = tokenizer
                .ignore_space(o.ignore_space)
                .map_err(|e| format!("ignore_space: {e}"))?
                .max_grouping_len(o.max_grouping_len);
            let mut w = tokenizer.new_worker();
            let mut per = vec![];
            for s in sentences {
                w.reset_sentence(s);
                w.tokenize();
                per.push(tokens_of(&w));
            }
            tokens.push(per);
        }
        Ok(Obs {
            num_left,
            num_right,
            costs,
            tokens,
            image,
            has_user,
            has_mapper,
        })
    });
    match r {
        Ok(x) => x,
        Err(p) => Err(format!("observing the dictionary: {p}")),
    }
}

/// Describes the first difference between two observations (None if equal).
pub fn diff_obs(a: &Obs, b: &Obs, sentences: &[String], opts: &[TokOpts], compare_image: bool) -> Option<String> {
    if (a.num_left, a.num_right) != (b.num_left, b.num_right) {
        return Some(format!(
            "connector sizes differ: {}x{} vs {}x{}",
            a.num_right, a.num_left, b.num_right, b.num_left
        ));
    }
    for r in 0..a.num_right {
        for l in 0..a.num_left {
            let i = r * a.num_left + l;
            if a.costs[i] != b.costs[i] {
                return Some(format!("connection cost ({r},{l}) differs: {} vs {}", a.costs[i], b.costs[i]));
            }
        }
    }
    for (oi, o) in opts.iter().enumerate() {
        for (si, s) in sentences.iter().enumerate() {
            if a.tokens[oi][si] != b.tokens[oi][si] {
                return Some(format!(
                    "tokens differ for sentence {s:?} opts {o:?}: {:?} vs {:?}",
                    brief_toks(&a.tokens[oi][si]),
                    brief_toks(&b.tokens[oi][si])
                ));
            }
        }
    }
    if a.has_user != b.has_user || a.has_mapper != b.has_mapper {
        return Some("presence of user lexicon / mapper differs".into());
    }
    if compare_image && a.image != b.image {
        return Some(format!("written images differ ({} vs {} bytes)", a.image.len(), b.image.len()));
    }
    None
}

pub fn brief_toks(t: &[Tok]) -> Vec<(String, u8, u32, u16, u16, i32)> {
    t.iter()
        .map(|t| (t.surface.clone(), t.lex_type, t.word_id, t.left_id, t.right_id, t.total_cost))
        .collect()
}

/// An operation on a dictionary value.
#[derive(Clone, Debug, Serialize, Deserialize, PartialEq, Eq, Hash)]
pub enum DOp {
    LoadUser(Vec<LexRow>),
    ClearUser,
    /// (left list, right list): i-th item (1-based) = old id that receives new id i
    Map(Vec<u16>, Vec<u16>),
    WriteRead,
}

impl DOp {
    pub fn tag(&self) -> &'static str {
        match self {
            DOp::LoadUser(_) => "load_user",
            DOp::ClearUser => "clear_user",
            DOp::Map(..) => "map",
            DOp::WriteRead => "write_read",
        }
    }
}

/// Applies an operation. `Err(Ok(msg))` = the API returned an error value; `Err(Err(msg))` = a
/// panic or a broken round trip (always a violation).
pub fn apply(d: Dictionary, op: &DOp) -> Result<Dictionary, Result<String, String>> {
    let r = guard(|| -> Result<Dictionary, Result<String, String>> {
        match op {
            DOp::LoadUser(rows) => {
                let csv = render_lex_rows(rows, 0);
                d.reset_user_lexicon_from_reader(Some(csv.as_bytes()))
                    .map_err(|e| Ok(format!("user lexicon rejected: {e}")))
            }
            DOp::ClearUser => d
                .reset_user_lexicon_from_reader(None::<&[u8]>)
                .map_err(|e| Ok(format!("clearing the user lexicon failed: {e}"))),
            DOp::Map(l, r) => d
                .map_connection_ids_from_iter(l.iter().copied(), r.iter().copied())
                .map_err(|e| Ok(format!("mapping rejected: {e}"))),
            DOp::WriteRead => roundtrip(&d).map(|x| x.0).map_err(Err),
        }
    });
    match r {
        Ok(x) => x,
        Err(p) => Err(Err(format!("{} : {p}", op.tag()))),
    }
}

/// Applies a list of operations that are all expected to succeed.
pub fn apply_all(mut d: Dictionary, ops: &[DOp]) -> Result<Dictionary, String> {
    for (i, op) in ops.iter().enumerate() {
        d = apply(d, op).map_err(|e| match e {
            Ok(m) => format!("op {i} {}: unexpected error value: {m}", op.tag()),
            Err(m) => format!("op {i} {}: {m}", op.tag()),
        })?;
    }
    Ok(d)
}
