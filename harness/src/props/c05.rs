//! C05 — A compiled dictionary round-trips through write/read.
use std::path::Path;

use proptest::collection::vec;
use proptest::prelude::*;
use serde::{Deserialize, Serialize};

use crate::engine::{guard, pick, run_sub, Ctx, Opts, Report, Sub, Tier};
use crate::gen::dict::{assemble_rows, raw_rows, CostRegime, DictParams, LexRow};
use crate::props::common::{build_case_dict, perm_from_keys, tok_case, TokCase, TokCaseParams};
use crate::props::dictops::{apply, apply_all, diff_obs, observe, read_image, roundtrip, write_image, DOp, Obs};
use crate::refmodel::Tok;

#[derive(Clone, Debug, Serialize, Deserialize, PartialEq, Eq, Hash)]
pub struct RtCase {
    /// Dictionary incl. optional base user lexicon and base mapping.
    pub base: TokCase,
    pub ops: Vec<DOp>,
    /// The reloaded side is written and read back after `rt_at` operations.
    pub rt_at: usize,
}

pub fn dops(nl: usize, nr: usize, raw: &[(u8, Vec<crate::gen::dict::RawRow>, Vec<u16>, Vec<u16>)]) -> Vec<DOp> {
    raw.iter()
        .enumerate()
        .map(|(i, (k, rows, lk, rk))| match k % 5 {
            0 | 1 => DOp::LoadUser(assemble_rows(rows, nl, nr, CostRegime::Medium, &format!("V{i}_"))),
            2 => DOp::ClearUser,
            3 => DOp::Map(perm_from_keys(lk, nl), perm_from_keys(rk, nr)),
            _ => DOp::WriteRead,
        })
        .collect()
}

pub fn rt_case() -> BoxedStrategy<RtCase> {
    let p = TokCaseParams {
        dict: DictParams {
            max_rows: 16,
            ..DictParams::default()
        },
        n_sentences: 6,
        max_chunks: 8,
        max_chars: 24,
        with_user: true,
        with_mapping: true,
        space_only_if_exclusive: false,
    };
    (
        tok_case(p),
        vec(
            (0u8..5, raw_rows(5, false), vec(any::<u16>(), 8), vec(any::<u16>(), 8)),
            0..=5,
        ),
        any::<u16>(),
    )
        .prop_map(|(base, raw, j)| {
            let nl = base.spec.conn.num_left();
            let nr = base.spec.conn.num_right();
            let ops = dops(nl, nr, &raw);
            let rt_at = pick(j, ops.len() + 1);
            RtCase { base, ops, rt_at }
        })
        .boxed()
}

pub struct RoundTrip;

fn sentences_with_user(case: &RtCase) -> Vec<String> {
    // add the surfaces of user rows loaded by ops so that they matter
    let mut s = case.base.sentences.clone();
    for op in &case.ops {
        if let DOp::LoadUser(rows) = op {
            if let Some(r) = rows.first() {
                s.push(format!("{}{}", r.surface, rows.last().unwrap().surface));
            }
        }
    }
    s
}

impl Sub for RoundTrip {
    type Case = RtCase;
    fn name(&self) -> &'static str {
        "roundtrip"
    }
    fn strategy(&self, _tier: Tier) -> BoxedStrategy<RtCase> {
        rt_case()
    }
    fn max_shrink_iters(&self) -> u32 {
        600
    }
    fn rule(&self) -> String {
        "DictSpec × {matrix,raw,dual} × {±user} × {±mapping} + 0-5 follow-up operations {load user, clear user, map ids, write/read}; \
         oracle: write reports the emitted length; read(write(D)) re-writes to identical bytes; D and its reload agree on tokens (6+ sentences × options), \
         on every connection cost and sizes; both sides driven through the operations (the reloaded side round-trips once more after rt_at operations) end with \
         identical observations and identical images; non-trivial = dictionary has a user lexicon, a mapper or a bigram connector and ≥1 operation follows; \
         distinct = hash(image, operations)".into()
    }
    fn check(&self, case: &RtCase, ctx: &mut Ctx) -> Result<(), String> {
        self.check_case(case, ctx)
    }
}

impl RoundTrip {
    pub fn check_case(&self, case: &RtCase, ctx: &mut Ctx) -> Result<(), String> {
        let b = &case.base;
        let files = b.spec.render();
        let sentences = sentences_with_user(case);
        let d0 = build_case_dict(&files, b.user.as_deref(), b.mapping.as_ref(), false)?;
        // (1)+(2) byte-level round trip
        let (d0r, image) = guard(|| roundtrip(&d0)).map_err(|p| format!("write/read: {p}"))??;
        ctx.eval();
        // (3) D0 and its reload behave identically
        let o0 = observe(d0, &sentences, &b.opts)?;
        let o0r = observe(d0r, &sentences, &b.opts)?;
        if let Some(d) = diff_obs(&o0, &o0r, &sentences, &b.opts, true) {
            return Err(format!("reloaded dictionary differs from the original: {d}"));
        }
        // (4) later operations
        let a = apply_all(read_image(&image)?, &case.ops).map_err(|e| format!("side A: {e}"))?;
        let mut bd = apply_all(read_image(&image)?, &case.ops[..case.rt_at]).map_err(|e| format!("side B: {e}"))?;
        bd = apply(bd, &DOp::WriteRead).map_err(|e| format!("side B round trip after {} ops: {e:?}", case.rt_at))?;
        let bd = apply_all(bd, &case.ops[case.rt_at..]).map_err(|e| format!("side B after round trip: {e}"))?;
        let oa = observe(a, &sentences, &b.opts)?;
        let ob = observe(bd, &sentences, &b.opts)?;
        ctx.eval();
        if let Some(d) = diff_obs(&oa, &ob, &sentences, &b.opts, true) {
            return Err(format!(
                "after operations {:?} the dictionary that was written and read back after {} of them differs: {d}",
                case.ops.iter().map(|o| o.tag()).collect::<Vec<_>>(),
                case.rt_at
            ));
        }
        ctx.label(b.spec.conn.kind());
        ctx.label_if(b.user.is_some(), "base_user");
        ctx.label_if(b.mapping.is_some(), "base_mapped");
        for op in &case.ops {
            ctx.label(op.tag());
        }
        ctx.label_if(case.rt_at < case.ops.len(), "ops_after_roundtrip");
        let rich = b.user.is_some() || b.mapping.is_some() || b.spec.conn.kind() != "matrix";
        if rich && !case.ops.is_empty() {
            ctx.nontrivial(&(crate::engine::hash64(&image), &case.ops, case.rt_at));
        }
        ctx.sample(|| {
            serde_json::json!({"connector": b.spec.conn.kind(), "base_user": b.user.is_some(), "base_mapping": b.mapping,
                "ops": case.ops.iter().map(|o| o.tag()).collect::<Vec<_>>(), "rt_at": case.rt_at,
                "image_bytes": image.len(), "sentences": sentences})
        });
        Ok(())
    }
}

// ---------------------------------------------------------------------------------------------
// Cross-build exchange (portable <-> AVX2)

#[derive(Serialize, Deserialize)]
pub struct XCase {
    pub sentences: Vec<String>,
    pub opts: Vec<crate::gen::dict::TokOpts>,
    pub num_left: usize,
    pub num_right: usize,
    pub costs: Vec<i32>,
    pub tokens: Vec<Vec<Vec<Tok>>>,
    pub connector: String,
    pub user: Option<Vec<LexRow>>,
}

#[derive(Serialize, Deserialize, Default)]
pub struct XResult {
    pub emitted_by: String,
    pub consumed_by: String,
    pub images: u64,
    pub evaluations: u64,
    pub failures: Vec<String>,
    pub connectors: std::collections::BTreeMap<String, u64>,
}

pub fn build_flavour() -> &'static str {
    if cfg!(target_feature = "avx2") {
        "avx2"
    } else {
        "portable"
    }
}

/// Generates `n` cases deterministically from the seed and writes image + expectations.
pub fn xbuild_emit(dir: &Path, seed: u64, n: u32) -> Result<(), String> {
    use proptest::strategy::ValueTree;
    use proptest::test_runner::{Config, RngAlgorithm, TestRng, TestRunner};
    std::fs::create_dir_all(dir).map_err(|e| e.to_string())?;
    let mut sb = [0u8; 32];
    for (i, c) in sb.chunks_mut(8).enumerate() {
        c.copy_from_slice(&crate::engine::splitmix(seed ^ 0xC05 ^ (i as u64) << 32).to_le_bytes());
    }
    let mut runner = TestRunner::new_with_rng(Config::default(), TestRng::from_seed(RngAlgorithm::ChaCha, &sb));
    let strat = rt_case();
    let mut written = 0;
    let mut tries = 0;
    while written < n && tries < n * 4 {
        tries += 1;
        let case = strat.new_tree(&mut runner).map_err(|e| e.to_string())?.current();
        let b = &case.base;
        let files = b.spec.render();
        let sentences = sentences_with_user(&case);
        let Ok(d) = build_case_dict(&files, b.user.as_deref(), b.mapping.as_ref(), false) else {
            continue;
        };
        // apply the operations as well so that images of operated dictionaries are exchanged
        let Ok(d) = apply_all(d, &case.ops) else { continue };
        // the rows of the user lexicon in effect at the end (if the last user-affecting
        // operation loaded one)
        let user_extra: Option<Vec<LexRow>> = case
            .ops
            .iter()
            .rev()
            .find(|o| matches!(o, DOp::LoadUser(_) | DOp::ClearUser))
            .and_then(|o| match o {
                DOp::LoadUser(r) => Some(r.clone()),
                _ => None,
            });
        // (a dictionary that cannot be observed here is the main run's business: its round-trip sub-check generates the same cases)
        let Ok(o): Result<Obs, String> = observe(d, &sentences, &b.opts) else { continue };
        let x = XCase {
            sentences,
            opts: b.opts.clone(),
            num_left: o.num_left,
            num_right: o.num_right,
            costs: o.costs,
            tokens: o.tokens,
            connector: b.spec.conn.kind().to_string(),
            user: user_extra,
        };
        std::fs::write(dir.join(format!("{written:05}.img")), &o.image).map_err(|e| e.to_string())?;
        std::fs::write(dir.join(format!("{written:05}.json")), serde_json::to_vec(&x).unwrap()).map_err(|e| e.to_string())?;
        written += 1;
    }
    std::fs::write(dir.join("emitted_by"), build_flavour()).map_err(|e| e.to_string())?;
    Ok(())
}

/// Reads every emitted image in this build and compares with the emitter's expectations.
pub fn xbuild_consume(dir: &Path) -> Result<XResult, String> {
    let mut res = XResult {
        emitted_by: std::fs::read_to_string(dir.join("emitted_by")).unwrap_or_default(),
        consumed_by: build_flavour().to_string(),
        ..Default::default()
    };
    let mut i = 0;
    loop {
        let img = dir.join(format!("{i:05}.img"));
        let js = dir.join(format!("{i:05}.json"));
        if !img.exists() {
            break;
        }
        let image = std::fs::read(&img).map_err(|e| e.to_string())?;
        let x: XCase = serde_json::from_slice(&std::fs::read(&js).map_err(|e| e.to_string())?).map_err(|e| e.to_string())?;
        res.images += 1;
        *res.connectors.entry(x.connector.clone()).or_insert(0) += 1;
        let verdict = (|| -> Result<(), String> {
            let d = guard(|| read_image(&image)).map_err(|p| format!("read: {p}"))??;
            let again = guard(|| write_image(&d)).map_err(|p| format!("write: {p}"))??;
            if again != image {
                return Err("image re-written by the other build differs bytewise".into());
            }
            let o = observe(d, &x.sentences, &x.opts)?;
            res.evaluations += (x.sentences.len() * x.opts.len()) as u64 + o.costs.len() as u64;
            if (o.num_left, o.num_right) != (x.num_left, x.num_right) {
                return Err("connector sizes differ between builds".into());
            }
            if o.costs != x.costs {
                let k = o.costs.iter().zip(&x.costs).position(|(a, b)| a != b).unwrap();
                return Err(format!(
                    "connection cost (right {}, left {}) differs between builds: {} here vs {} in the emitting build",
                    k / o.num_left,
                    k % o.num_left,
                    o.costs[k],
                    x.costs[k]
                ));
            }
            if o.tokens != x.tokens {
                return Err("tokens differ between builds".into());
            }
            // a later operation on the foreign image
            if let Some(rows) = &x.user {
                let d = read_image(&image)?;
                let d = apply(d, &DOp::LoadUser(rows.clone())).map_err(|e| format!("user lexicon on a foreign image: {e:?}"))?;
                let o2 = observe(d, &x.sentences, &x.opts)?;
                if o2.tokens != x.tokens {
                    return Err("tokens differ after re-loading the user lexicon on the foreign image".into());
                }
            }
            Ok(())
        })();
        if let Err(e) = verdict {
            res.failures.push(format!("{}: {e}", img.display()));
        }
        i += 1;
    }
    Ok(res)
}

pub fn absorb_xresults(rep: &mut Report, opts: &Opts, what: &str) {
    let Ok(list) = std::env::var("VERIF_XBUILD_RESULTS") else {
        rep.notes.push(format!("{what}: no cross-build exchange was run (AVX2 not available on this CPU or check invoked directly)"));
        return;
    };
    for p in list.split(':').filter(|s| !s.is_empty()) {
        // a model or dictionary the emitting build could not construct at all
        let ef = Path::new(p).with_file_name("emit_failure.json");
        if let Ok(t) = std::fs::read_to_string(&ef) {
            let dst = crate::engine::out_dir(opts).join(format!("{}-xbuild-emit-failure-{}.json", rep.property, crate::engine::hash64(&t)));
            let _ = std::fs::copy(&ef, &dst);
            let err = serde_json::from_str::<serde_json::Value>(&t).ok().and_then(|v| v["error"].as_str().map(|s| s.to_string())).unwrap_or_default();
            rep.violations.push(crate::engine::Violation {
                sub: "xbuild_emit".into(),
                reason: format!("a generated valid input could not be built for the cross-build exchange: {err}"),
                replay: dst,
            });
        }
        let Ok(text) = std::fs::read_to_string(p) else {
            rep.notes.push(format!("cross-build result {p} missing"));
            continue;
        };
        let Ok(r) = serde_json::from_str::<XResult>(&text) else { continue };
        rep.evaluations += r.evaluations;
        rep.subs.push(serde_json::json!({"sub": format!("xbuild_{}_to_{}", r.emitted_by, r.consumed_by),
            "images": r.images, "evaluations": r.evaluations, "connectors": r.connectors, "failures": r.failures.len()}));
        for f in r.failures.iter().take(2) {
            // the failing image itself is the replay; keep a copy outside the scratch dir
            let src = f.split(':').next().unwrap_or("");
            let dst = crate::engine::out_dir(opts).join(format!(
                "{}-xbuild-{}-{}",
                rep.property,
                r.emitted_by,
                Path::new(src).file_name().map(|s| s.to_string_lossy().to_string()).unwrap_or_default()
            ));
            let _ = std::fs::copy(src, &dst);
            rep.violations.push(crate::engine::Violation {
                sub: format!("xbuild_{}_to_{}", r.emitted_by, r.consumed_by),
                reason: f.clone(),
                replay: dst,
            });
        }
    }
}

pub fn run(opts: &Opts) -> Report {
    let mut rep = Report::new("C05", "exploration");
    rep.assumptions = vec![
        "both sides of every comparison start from the same image (a dual connector built twice from text may split templates differently: hash-set iteration order)".into(),
        "cross-build clause decided only on CPUs with AVX2 (exchange of images between the two builds of this harness)".into(),
    ];
    let a = RoundTrip;
    crate::props::committed_replays(&a, opts, &mut rep);
    run_sub(&a, opts, opts.tier.pick(1500, 30_000), &mut rep);
    let sc = crate::props::scale::RoundTripScale;
    crate::props::committed_replays(&sc, opts, &mut rep);
    run_sub(&sc, opts, opts.tier.pick(160, 3000), &mut rep);
    absorb_xresults(&mut rep, opts, "C05");
    rep
}

pub fn replay(path: &Path) -> Option<i32> {
    crate::props::try_strict(&RoundTrip, "C05", path).or_else(|| crate::props::try_strict(&crate::props::scale::RoundTripScale, "C05", path))
}
