//! C13 — Reordering statistics always yield a valid, frequency-ordered mapping.
use std::path::Path;

use proptest::collection::vec;
use proptest::prelude::*;
use serde::{Deserialize, Serialize};

use crate::engine::{guard, run_sub, Ctx, Opts, Report, Sub, Tier};
use crate::gen::dict::{DictParams, TokOpts};
use crate::props::common::{build_case_dict, new_ids, tok_case, TokCase, TokCaseParams};
use crate::props::dictops::{apply_all, observe, DOp};
use crate::refmodel::RefDict;

#[derive(Clone, Debug, Serialize, Deserialize, PartialEq, Eq, Hash)]
pub struct ReorderCase {
    pub base: TokCase,
    /// Indices into base.sentences (usize::MAX = empty line); the training "file".
    pub lines: Vec<usize>,
}

pub struct Reorder;

fn expected_order(counts: &[u64]) -> Vec<usize> {
    let mut ids: Vec<usize> = (1..counts.len()).collect();
    ids.sort_by(|&a, &b| counts[b].cmp(&counts[a]).then(a.cmp(&b)));
    ids
}

impl Sub for Reorder {
    type Case = ReorderCase;
    fn name(&self) -> &'static str {
        "reorder"
    }
    fn max_shrink_iters(&self) -> u32 {
        1000
    }
    fn strategy(&self, _tier: Tier) -> BoxedStrategy<ReorderCase> {
        let p = TokCaseParams {
            dict: DictParams {
                max_rows: 20,
                conn: crate::gen::dict::ConnChoice::AnyOrWide,
                ..DictParams::default()
            },
            n_sentences: 5,
            max_chunks: 6,
            max_chars: 16,
            with_user: false,
            with_mapping: false,
            // ignore_space (first option set of the case) only where the reference lattice is defined for it
            space_only_if_exclusive: true,
        };
        (tok_case(p), vec(0u8..8, 0..=12))
            .prop_map(|(base, raw)| {
                let n = base.sentences.len();
                let lines = raw
                    .iter()
                    .map(|&k| if k >= 6 { usize::MAX } else { usize::from(k) % n })
                    .collect();
                ReorderCase { base, lines }
            })
            .boxed()
    }
    fn rule(&self) -> String {
        "exactly the reorder tool's loop (init counter; per line: reset, tokenize, update counts) over 0-12 generated lines incl. empty and repeated lines, generated options (ignore_space on dictionaries meeting the C12 precondition, max_grouping_len); \
         oracle: after every prefix of the history the reported id lists equal the reference recount of connection-cost evaluations ((predecessor, candidate) pairs + (predecessor, EOS)), \
         each id != 0 exactly once, ordered by (count desc, id asc), probabilities == count/total; the final lists are accepted by map_connection_ids_from_iter and the mapped \
         dictionary tokenizes the lines identically modulo the permutation; non-trivial = ≥2 non-empty lines, ≥2 ids with different counts and a tie; distinct = hash(files, lines)".into()
    }
    fn check(&self, case: &ReorderCase, ctx: &mut Ctx) -> Result<(), String> {
        let b = &case.base;
        let files = b.spec.render();
        let rd = RefDict::new(&b.spec, &[]);
        let nl = rd.conn.num_left;
        let nr = rd.conn.num_right;
        let dict = build_case_dict(&files, None, None, false)?;
        // the reorder tool sets no option; library users may: the first option set of the case is used
        let o: TokOpts = b.opts.first().cloned().unwrap_or_default();
        let tokenizer = crate::refmodel::make_tokenizer_h(dict, o.ignore_space, o.max_grouping_len, o.history)?;
        let mut w = tokenizer.new_worker();
        guard(|| w.init_connid_counter()).map_err(|p| format!("init_connid_counter: {p}"))?;
        let mut lc = vec![0u64; nl];
        let mut rcnt = vec![0u64; nr];
        let mut last: (Vec<(usize, f64)>, Vec<(usize, f64)>) = (vec![], vec![]);
        let verify = |lp: &Vec<(usize, f64)>, rp: &Vec<(usize, f64)>, lc: &Vec<u64>, rcnt: &Vec<u64>, step: String| -> Result<(), String> {
            for (name, probs, counts) in [("left", lp, lc), ("right", rp, rcnt)] {
                let ids: Vec<usize> = probs.iter().map(|x| x.0).collect();
                let want = expected_order(counts);
                if ids != want {
                    return Err(format!("{step}: {name} id order {ids:?} != expected {want:?} (reference counts {counts:?})"));
                }
                let total: u64 = counts.iter().sum();
                if total > 0 {
                    for &(id, p) in probs {
                        let e = counts[id] as f64 / total as f64;
                        if (p - e).abs() > 1e-12 * e.max(1e-300) && (p - e).abs() > 1e-15 {
                            return Err(format!("{step}: {name} id {id} probability {p} != {}/{total}", counts[id]));
                        }
                    }
                }
            }
            Ok(())
        };
        // no lines at all
        let (lp, rp) = guard(|| w.compute_connid_probs()).map_err(|p| format!("compute_connid_probs before any line: {p}"))?;
        verify(&lp, &rp, &lc, &rcnt, "before any line".into())?;
        ctx.eval();
        for (i, &li) in case.lines.iter().enumerate() {
            let line: &str = if li == usize::MAX { "" } else { &b.sentences[li] };
            guard(|| {
                w.reset_sentence(line);
                w.tokenize();
                w.update_connid_counts();
            })
            .map_err(|p| format!("line {i} {line:?}: {p}"))?;
            let refl = rd.lattice(line, o.ignore_space, o.max_grouping_len);
            for (a, c) in lc.iter_mut().zip(&refl.lid_count) {
                *a += c;
            }
            for (a, c) in rcnt.iter_mut().zip(&refl.rid_count) {
                *a += c;
            }
            let (lp, rp) = guard(|| w.compute_connid_probs()).map_err(|p| format!("compute_connid_probs after line {i}: {p}"))?;
            ctx.eval();
            verify(&lp, &rp, &lc, &rcnt, format!("after line {i} {line:?} of {:?}", case.lines))?;
            last = (lp, rp);
        }
        // reorder -> map round trip
        if !case.lines.is_empty() {
            let lmap: Vec<u16> = last.0.iter().map(|x| x.0 as u16).collect();
            let rmap: Vec<u16> = last.1.iter().map(|x| x.0 as u16).collect();
            let d0 = build_case_dict(&files, None, None, false)?;
            let d1 = apply_all(build_case_dict(&files, None, None, false)?, &[DOp::Map(lmap.clone(), rmap.clone())])
                .map_err(|e| format!("reorder output rejected by map_connection_ids_from_iter: {e}"))?;
            let opts = [o.clone()];
            let o0 = observe(d0, &b.sentences, &opts)?;
            let o1 = observe(d1, &b.sentences, &opts)?;
            let (pl, pr) = (new_ids(&lmap), new_ids(&rmap));
            for (si, s) in b.sentences.iter().enumerate() {
                let (t0, t1) = (&o0.tokens[0][si], &o1.tokens[0][si]);
                let same = t0.len() == t1.len()
                    && t0.iter().zip(t1).all(|(a, c)| {
                        a.surface == c.surface
                            && a.feature == c.feature
                            && a.total_cost == c.total_cost
                            && c.left_id == pl[usize::from(a.left_id)]
                            && c.right_id == pr[usize::from(a.right_id)]
                    });
                if !same && rd.lattice(s, o.ignore_space, o.max_grouping_len).eos_npaths == 1 {
                    return Err(format!("after reorder->map the sentence {s:?} tokenizes differently"));
                }
            }
        }
        let nonempty = case.lines.iter().filter(|&&l| l != usize::MAX && !b.sentences[l].is_empty()).count();
        let mut distinct_counts: Vec<u64> = lc[1..].to_vec();
        distinct_counts.sort_unstable();
        let has_tie = distinct_counts.windows(2).any(|w| w[0] == w[1]);
        distinct_counts.dedup();
        ctx.label(b.spec.conn.kind());
        ctx.label_if(case.lines.contains(&usize::MAX), "has_empty_line");
        ctx.label_if(case.lines.first() == Some(&usize::MAX), "empty_first_line");
        ctx.label_if(case.lines.is_empty(), "no_lines");
        ctx.label_if(o.ignore_space, "ignore_space");
        ctx.label_if(o.ignore_space && case.lines.iter().any(|&l| l != usize::MAX && b.sentences[l].ends_with(|c: char| crate::gen::dict::SPACE_CHARS.contains(&c))), "ignore_space_and_trailing_space");
        ctx.label_if(o.max_grouping_len != 0, "max_grouping_len_set");
        ctx.label_if(has_tie, "count_tie");
        if nonempty >= 2 && distinct_counts.len() >= 2 && has_tie {
            ctx.nontrivial(&(&files, &case.lines, &b.sentences));
        }
        ctx.sample(|| serde_json::json!({"lines": case.lines.iter().map(|&l| if l == usize::MAX { "" } else { b.sentences[l].as_str() }).collect::<Vec<_>>(),
            "left_counts": lc, "right_counts": rcnt, "connector": b.spec.conn.kind()}));
        Ok(())
    }
}

pub fn run(opts: &Opts) -> Report {
    let mut rep = Report::new("C13", "exploration");
    rep.assumptions = vec![
        "the reorder tool sets no option; library users may: each case uses its first generated option set (ignore_space only on dictionaries meeting the C12 precondition)".into(),
        "probabilities are compared with count/total to 1e-12 relative; they are NaN (and skipped) when nothing was counted".into(),
    ];
    let a = Reorder;
    crate::props::committed_replays(&a, opts, &mut rep);
    run_sub(&a, opts, opts.tier.pick(10_000, 150_000), &mut rep);
    let sc = crate::props::scale::ReorderScale;
    crate::props::committed_replays(&sc, opts, &mut rep);
    run_sub(&sc, opts, opts.tier.pick(32, 600), &mut rep);
    crate::props::cli::c13(opts, &mut rep, opts.tier.pick(40, 600));
    rep
}

pub fn replay(path: &Path) -> Option<i32> {
    crate::props::try_strict(&Reorder, "C13", path).or_else(|| crate::props::try_strict(&crate::props::scale::ReorderScale, "C13", path))
}
