//! C12 — With ignore_space, the amount of whitespace does not matter (metamorphic).
use std::path::Path;

use proptest::collection::vec;
use proptest::prelude::*;
use serde::{Deserialize, Serialize};

use crate::engine::{guard, pick, run_sub, Ctx, Opts, Report, Sub, Tier};
use crate::gen::dict::{assemble_sentence, dict_spec, raw_rows, raw_sentence, assemble_rows, CostRegime, DictParams, DictSpec, LexRow, RawSentence, SpaceMode, ConnChoice};
use crate::props::c01::validate_tokens;
use crate::props::c02::check_reported_path;
use crate::props::common::{build_case_dict, c12_precondition};
use crate::refmodel::{make_tokenizer, tokens_of, RefChars, RefDict, Tok};

#[derive(Clone, Debug, Serialize, Deserialize, PartialEq, Eq, Hash)]
pub struct SpaceCase {
    pub spec: DictSpec,
    pub user: Option<Vec<LexRow>>,
    pub max_grouping_len: usize,
    /// Non-space chunks; `sep_after[i]` says whether a space run follows chunk i (inner gaps only).
    pub chunks: Vec<String>,
    pub sep_after: Vec<bool>,
    /// Each variant: leading run, one run per inner gap with a separator, trailing run.
    pub variants: Vec<Vec<String>>,
}

pub struct Respacing;

fn space_chars_of(spec: &DictSpec) -> Vec<char> {
    let rc = RefChars { def: &spec.chardef };
    let bit = crate::refmodel::cat_bit(rc.space_idx().unwrap());
    crate::gen::dict::SPACE_CHARS
        .iter()
        .copied()
        .filter(|&c| rc.info(c).cats & bit != 0)
        .collect()
}

fn space_case() -> BoxedStrategy<SpaceCase> {
    let p = DictParams {
        space: SpaceMode::Exclusive,
        conn: ConnChoice::Any,
        max_cats: 18,
        max_rows: 20,
    };
    (
        dict_spec(p),
        proptest::option::weighted(0.4, raw_rows(6, true)),
        vec((raw_sentence(3), any::<bool>()), 1..=5),
        vec(vec((1u8..=4, any::<u16>(), any::<bool>()), 8), 4),
        prop_oneof![3 => Just(0usize), 1 => Just(1usize), 1 => Just(2usize), 1 => Just(24usize)],
    )
        .prop_map(|(spec, user_raw, raw_chunks, raw_vars, mgl)| {
            let nl = spec.conn.num_left();
            let nr = spec.conn.num_right();
            let user = user_raw.map(|r| assemble_rows(&r, nl, nr, CostRegime::Medium, "W"));
            let urows: &[LexRow] = user.as_deref().unwrap_or(&[]);
            let rc = RefChars { def: &spec.chardef };
            let bit = crate::refmodel::cat_bit(rc.space_idx().unwrap());
            let spaces = space_chars_of(&spec);
            let mut chunks = vec![];
            let mut sep_after = vec![];
            for (raw, sep) in &raw_chunks {
                let RawSentence(items) = raw;
                let s = assemble_sentence(&RawSentence(items.clone()), &spec, urows, 10);
                let mut s: String = s.chars().filter(|&c| rc.info(c).cats & bit == 0).collect();
                crate::gen::dict::exclude_known_astral(&spec, &mut s);
                if s.is_empty() {
                    continue;
                }
                chunks.push(s);
                sep_after.push(*sep);
            }
            if let Some(l) = sep_after.last_mut() {
                *l = false;
            }
            let ngaps = sep_after.iter().filter(|&&b| b).count();
            let variants = raw_vars
                .iter()
                .map(|rv| {
                    let mk = |(n, r, on): &(u8, u16, bool), may_be_empty: bool| -> String {
                        if may_be_empty && !on {
                            return String::new();
                        }
                        // rarely a very long run: the 8/16-bit boundaries of anything that counts skipped characters
                        let len: usize = if *r % 128 == 5 { [255usize, 256, 257, 65_535, 65_536, 65_537, 131_072, 70_000][usize::from(*r / 128) % 8] } else { usize::from(*n) };
                        (0..len).map(|k| spaces[(pick(*r, spaces.len()) + k) % spaces.len()]).collect()
                    };
                    let mut v = vec![mk(&rv[0], true)];
                    for g in 0..ngaps {
                        v.push(mk(&rv[1 + g % 6], false));
                    }
                    v.push(mk(&rv[7], true));
                    v
                })
                .collect();
            SpaceCase {
                spec,
                user,
                max_grouping_len: mgl,
                chunks,
                sep_after,
                variants,
            }
        })
        .boxed()
}

fn assemble_variant(case: &SpaceCase, v: &[String]) -> String {
    let mut s = v[0].clone();
    let mut g = 1;
    for (i, c) in case.chunks.iter().enumerate() {
        s.push_str(c);
        if case.sep_after[i] {
            s.push_str(&v[g]);
            g += 1;
        }
    }
    s.push_str(v.last().unwrap());
    s
}

type Core = (String, String, i16, u16, u16, i32, u8, u32);
fn core(t: &[Tok]) -> Vec<Core> {
    t.iter()
        .map(|t| (t.surface.clone(), t.feature.clone(), t.word_cost, t.left_id, t.right_id, t.total_cost, t.lex_type, t.word_id))
        .collect()
}

impl Sub for Respacing {
    type Case = SpaceCase;
    fn name(&self) -> &'static str {
        "respacing"
    }
    fn strategy(&self, _tier: Tier) -> BoxedStrategy<SpaceCase> {
        space_case()
    }
    fn rule(&self) -> String {
        "dictionaries meeting the C12 precondition by construction (SPACE assigned alone to 1-3 space code points, no other range mentions it, no surface contains a space) × \
         1-5 non-space chunks with fixed gap positions × 4 re-spacings (run lengths 1-4 and, in about one run of 128, 255/256/257/65535/65536/65537/70000/131072; mixed space characters, optional leading/trailing runs); oracle (metamorphic + reference): \
         all variants yield the same (surface, feature, word cost, ids, total cost) list — exact under a unique optimum, cost-only otherwise; each satisfies the C01 predicate; the \
         total equals the reference Viterbi optimum with gap skipping; spaces-only ⇒ no tokens; non-trivial = ≥2 chunks with a gap, an unknown token adjacent to a gap and a non-zero \
         connection cost across a gap; distinct = hash(files, chunks, variants)".into()
    }
    fn check(&self, case: &SpaceCase, ctx: &mut Ctx) -> Result<(), String> {
        let files = case.spec.render();
        let user = case.user.as_deref();
        let urows = user.unwrap_or(&[]);
        if !c12_precondition(&case.spec, urows) {
            return Err("harness: generated dictionary violates the C12 precondition".into());
        }
        let rd = RefDict::new(&case.spec, urows);
        let dict = build_case_dict(&files, user, None, false)?;
        let tokenizer = make_tokenizer(dict, true, case.max_grouping_len)?;
        let mut w = tokenizer.new_worker();
        let mut first: Option<(Vec<Core>, String)> = None;
        let mut nontrivial = false;
        for v in &case.variants {
            let s = assemble_variant(case, v);
            let toks = guard(|| {
                w.reset_sentence(&s);
                w.tokenize();
                tokens_of(&w)
            })
            .map_err(|p| format!("tokenize({s:?}): {p}"))?;
            ctx.eval();
            validate_tokens(&rd, &s, &toks, true, None, None).map_err(|e| format!("variant {s:?}: {e}"))?;
            let refl = rd.lattice(&s, true, case.max_grouping_len);
            if toks.is_empty() {
                if !case.chunks.is_empty() {
                    return Err(format!("variant {s:?} has non-space text but produced no tokens"));
                }
            } else {
                check_reported_path(&rd, refl.eos_best, &toks).map_err(|e| format!("variant {s:?}: {e}"))?;
            }
            let c = core(&toks);
            match &first {
                None => first = Some((c, s.clone())),
                Some((c0, s0)) => {
                    if *c0 != c {
                        let total = |x: &Vec<Core>| x.last().map(|t| t.5);
                        if refl.eos_npaths > 1 && total(c0) == total(&c) {
                            ctx.count("tie_ambiguous", 1);
                        } else {
                            return Err(format!("re-spacing changed the tokens: {s0:?} -> {c0:?} but {s:?} -> {c:?}"));
                        }
                    }
                }
            }
            // non-triviality: unknown token adjacent to a gap and a non-zero connection across a gap
            let mut unk_adjacent = false;
            let mut cross_nonzero = false;
            for p in toks.windows(2) {
                if p[0].range_char.1 < p[1].range_char.0 {
                    unk_adjacent |= p[0].lex_type == 2 || p[1].lex_type == 2;
                    let (_, _, r, _) = rd.entry(p[0].lex_type, p[0].word_id).unwrap();
                    let (_, l, _, _) = rd.entry(p[1].lex_type, p[1].word_id).unwrap();
                    cross_nonzero |= rd.conn.get(r, l) != 0;
                }
            }
            nontrivial |= case.chunks.len() >= 2 && unk_adjacent && cross_nonzero;
            ctx.label_if(unk_adjacent, "unknown_adjacent_to_gap");
            ctx.label_if(cross_nonzero, "nonzero_cost_across_gap");
            ctx.label_if(refl.eos_npaths > 1, "tie");
        }
        // a sentence of spaces only
        let spaces_only: String = case.variants.iter().flat_map(|v| v.iter().cloned()).collect();
        if !spaces_only.is_empty() {
            let toks = guard(|| {
                w.reset_sentence(&spaces_only);
                w.tokenize();
                tokens_of(&w)
            })
            .map_err(|p| format!("tokenize(spaces only, {} characters): {p}", spaces_only.chars().count()))?;
            ctx.eval();
            if !toks.is_empty() {
                return Err(format!("a sentence of spaces only ({} characters) yields {} tokens", spaces_only.chars().count(), toks.len()));
            }
        }
        ctx.label(case.spec.conn.kind());
        ctx.label_if(user.is_some(), "user_lexicon");
        ctx.label_if(case.max_grouping_len != 0, "max_grouping_len_set");
        if nontrivial {
            ctx.nontrivial(&(&files, &case.user, &case.chunks, &case.variants));
        }
        let longest_run = case.variants.iter().flatten().map(|r| r.chars().count()).max().unwrap_or(0);
        ctx.label_if(longest_run >= 255, "space_run_ge_255");
        ctx.label_if(longest_run >= 65_536, "space_run_ge_65536");
        ctx.sample(|| {
            let abbreviate = |s: String| if s.chars().count() > 200 { format!("{}… ({} characters)", s.chars().take(60).collect::<String>(), s.chars().count()) } else { s };
            serde_json::json!({"chunks": case.chunks, "sep_after": case.sep_after,
            "variants": case.variants.iter().map(|v| abbreviate(assemble_variant(case, v))).collect::<Vec<_>>(),
            "run_lengths": case.variants.iter().map(|v| v.iter().map(|r| r.chars().count()).collect::<Vec<_>>()).collect::<Vec<_>>(), "char.def": files.chardef})
        });
        Ok(())
    }
}

/// `ignore_space(true)` on a dictionary without SPACE must be an error.
#[derive(Clone, Debug, Serialize, Deserialize, PartialEq, Eq, Hash)]
pub struct NoSpaceCase {
    pub spec: DictSpec,
}
pub struct NoSpace;

impl Sub for NoSpace {
    type Case = NoSpaceCase;
    fn name(&self) -> &'static str {
        "no_space_category"
    }
    fn strategy(&self, _tier: Tier) -> BoxedStrategy<NoSpaceCase> {
        dict_spec(DictParams {
            max_rows: 4,
            ..DictParams::default()
        })
        .prop_map(|mut spec| {
            for c in spec.chardef.cats.iter_mut() {
                if c.name == "SPACE" {
                    c.name = "SPACEX".into();
                }
            }
            NoSpaceCase { spec }
        })
        .boxed()
    }
    fn rule(&self) -> String {
        "dictionaries whose char.def does not define SPACE (a similarly named category may exist); oracle: Tokenizer::ignore_space(true) returns Err, ignore_space(false) Ok; \
         non-trivial = a category named SPACEX exists; distinct = hash(char.def)".into()
    }
    fn check(&self, case: &NoSpaceCase, ctx: &mut Ctx) -> Result<(), String> {
        let files = case.spec.render();
        let d = build_case_dict(&files, None, None, false)?;
        ctx.eval();
        let r = guard(|| vibrato::Tokenizer::new(d).ignore_space(true).is_ok()).map_err(|p| format!("ignore_space: {p}"))?;
        if r {
            return Err(format!("ignore_space(true) accepted although SPACE is undefined: {:?}", files.chardef));
        }
        let d = build_case_dict(&files, None, None, false)?;
        if guard(|| vibrato::Tokenizer::new(d).ignore_space(false).is_err()).map_err(|p| format!("ignore_space(false): {p}"))? {
            return Err("ignore_space(false) rejected".into());
        }
        if case.spec.chardef.cats.iter().any(|c| c.name == "SPACEX") {
            ctx.nontrivial(&files.chardef);
        }
        ctx.sample(|| serde_json::json!({"char.def": files.chardef}));
        Ok(())
    }
}

pub fn run(opts: &Opts) -> Report {
    let mut rep = Report::new("C12", "exploration");
    rep.assumptions = vec![
        "the stated precondition is built in: SPACE alone on the space characters, no other character in SPACE, no surface contains a space".into(),
        "token sequences of variants are compared exactly unless the reference proves several optimal paths".into(),
    ];
    let a = Respacing;
    let b = NoSpace;
    crate::props::committed_replays(&a, opts, &mut rep);
    run_sub(&a, opts, opts.tier.pick(20_000, 300_000), &mut rep);
    run_sub(&b, opts, opts.tier.pick(600, 6000), &mut rep);
    rep
}

pub fn replay(path: &Path) -> Option<i32> {
    crate::props::try_strict(&Respacing, "C12", path).or_else(|| crate::props::try_strict(&NoSpace, "C12", path))
}
