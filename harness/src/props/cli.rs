//! End-to-end tier through the real CLI binaries (compile, reorder, map, tokenize, split) and their
//! zstd framing. Used by C13 and C19. The binaries are built by the `check` driver from /repo's
//! workspace into harness/target-cli and located through $VERIF_CLI_BIN.
use std::io::Write;
use std::path::{Path, PathBuf};
use std::process::{Command, Stdio};

use proptest::strategy::{Strategy, ValueTree};
use proptest::test_runner::{Config, RngAlgorithm, TestRng, TestRunner};
use vibrato::trainer::Corpus;

use crate::engine::{write_replay, Opts, Report, Violation};
use crate::gen::dict::{render_lex_rows, ConnFiles, DictParams, TokOpts};
use crate::props::c19::is_break;
use crate::props::common::{build_case_dict, tok_case, TokCase, TokCaseParams};
use crate::refmodel::{tokenize_fresh, RefDict};

pub fn bin_dir() -> Option<PathBuf> {
    let d = PathBuf::from(std::env::var("VERIF_CLI_BIN").ok()?);
    d.join("compile").exists().then_some(d)
}

fn run(bin: &Path, args: &[&str], stdin: Option<&[u8]>) -> Result<Vec<u8>, String> {
    let mut cmd = Command::new(bin);
    cmd.args(args).stdin(if stdin.is_some() { Stdio::piped() } else { Stdio::null() }).stdout(Stdio::piped()).stderr(Stdio::piped());
    let mut child = cmd.spawn().map_err(|e| format!("cannot start {bin:?}: {e}"))?;
    if let Some(data) = stdin {
        let mut si = child.stdin.take().unwrap();
        let data = data.to_vec();
        std::thread::spawn(move || {
            let _ = si.write_all(&data);
        });
    }
    let out = child.wait_with_output().map_err(|e| format!("{bin:?}: {e}"))?;
    if !out.status.success() {
        return Err(format!(
            "{} {:?} exited with {:?}: {}",
            bin.file_name().unwrap().to_string_lossy(),
            args,
            out.status.code(),
            String::from_utf8_lossy(&out.stderr).lines().rev().take(3).collect::<Vec<_>>().join(" | ")
        ));
    }
    Ok(out.stdout)
}

struct Work {
    dir: PathBuf,
}
impl Work {
    fn new(opts: &Opts, tag: &str) -> Self {
        let dir = opts.verif_dir.join("out").join("cli").join(format!("{tag}-{}", std::process::id()));
        let _ = std::fs::remove_dir_all(&dir);
        std::fs::create_dir_all(&dir).unwrap();
        Self { dir }
    }
    fn p(&self, n: &str) -> String {
        self.dir.join(n).to_string_lossy().to_string()
    }
    fn w(&self, n: &str, data: &[u8]) -> String {
        std::fs::write(self.dir.join(n), data).unwrap();
        self.p(n)
    }
}
impl Drop for Work {
    fn drop(&mut self) {
        let _ = std::fs::remove_dir_all(&self.dir);
    }
}

fn compile(bins: &Path, w: &Work, case: &TokCase, out: &str) -> Result<String, String> {
    let f = case.spec.render();
    let lex = w.w("lex.csv", f.lex.as_bytes());
    let chr = w.w("char.def", f.chardef.as_bytes());
    let unk = w.w("unk.def", f.unk.as_bytes());
    let dic = w.p(out);
    match &f.conn {
        ConnFiles::Matrix(m) => {
            let mp = w.w("matrix.def", m.as_bytes());
            run(&bins.join("compile"), &["-l", &lex, "-m", &mp, "-u", &unk, "-c", &chr, "-o", &dic], None)?;
        }
        ConnFiles::Bigram { right, left, cost, dual } => {
            let r = w.w("bigram.right", right.as_bytes());
            let l = w.w("bigram.left", left.as_bytes());
            let c = w.w("bigram.cost", cost.as_bytes());
            let mut a = vec!["-l", &lex, "-u", &unk, "-c", &chr, "-o", &dic, "--bigram-right-in", &r, "--bigram-left-in", &l, "--bigram-cost-in", &c];
            if *dual {
                a.push("--dual-connector");
            }
            run(&bins.join("compile"), &a, None)?;
        }
    }
    Ok(dic)
}

fn cases(seed: u64, salt: u64, n: u32, with_user: bool) -> Vec<TokCase> {
    let mut sb = [0u8; 32];
    for (i, c) in sb.chunks_mut(8).enumerate() {
        c.copy_from_slice(&crate::engine::splitmix(seed ^ salt ^ (i as u64) << 32).to_le_bytes());
    }
    let mut runner = TestRunner::new_with_rng(Config::default(), TestRng::from_seed(RngAlgorithm::ChaCha, &sb));
    let strat = tok_case(TokCaseParams {
        dict: DictParams {
            max_rows: 14,
            ..DictParams::default()
        },
        n_sentences: 6,
        with_user,
        with_mapping: false,
        ..TokCaseParams::default()
    });
    (0..n)
        .map(|_| {
            let mut c = strat.new_tree(&mut runner).unwrap().current();
            for s in c.sentences.iter_mut() {
                *s = s.chars().filter(|&ch| !is_break(ch)).collect();
            }
            c
        })
        .collect()
}

/// C13 through the binaries: compile → reorder → map → tokenize; the mapped dictionary must print
/// the same mecab output, and the .lmap/.rmap files must list the library's id order.
pub fn c13(opts: &Opts, rep: &mut Report, n: u32) {
    let Some(bins) = bin_dir() else {
        rep.notes.push("CLI tier skipped: binaries not built (VERIF_CLI_BIN unset)".into());
        return;
    };
    let t0 = std::time::Instant::now();
    let mut done = 0u64;
    for (k, case) in cases(opts.seed, 0xC13C, n, false).into_iter().enumerate() {
        let w = Work::new(opts, "c13");
        let verdict = (|| -> Result<(), String> {
            let dic = compile(&bins, &w, &case, "sys.dic.zst")?;
            let mut text: String = case.sentences.join("\n");
            text.push('\n');
            let mapping = w.p("mapping");
            run(&bins.join("reorder"), &["-i", &dic, "-o", &mapping], Some(text.as_bytes()))?;
            // the library's statistics for the same lines
            let d = build_case_dict(&case.spec.render(), None, None, false)?;
            let tokenizer = vibrato::Tokenizer::new(d);
            let mut wk = tokenizer.new_worker();
            wk.init_connid_counter();
            for line in text.lines() {
                wk.reset_sentence(line);
                wk.tokenize();
                wk.update_connid_counts();
            }
            let (lp, rp) = wk.compute_connid_probs();
            for (ext, probs) in [("lmap", &lp), ("rmap", &rp)] {
                let file = std::fs::read_to_string(w.dir.join(format!("mapping.{ext}"))).map_err(|e| format!("mapping.{ext}: {e}"))?;
                let ids: Vec<String> = file.lines().map(|l| l.split('\t').next().unwrap_or("").to_string()).collect();
                let want: Vec<String> = probs.iter().map(|p| p.0.to_string()).collect();
                if ids != want {
                    return Err(format!("mapping.{ext} lists ids {ids:?}, the library's statistics give {want:?}"));
                }
            }
            let mapped = w.p("mapped.dic.zst");
            run(&bins.join("map"), &["-i", &dic, "-m", &mapping, "-o", &mapped], None)
                .map_err(|e| format!("the reorder tool's output was not accepted by the map tool: {e}"))?;
            let a = run(&bins.join("tokenize"), &["-i", &dic, "-O", "mecab"], Some(text.as_bytes()))?;
            let b = run(&bins.join("tokenize"), &["-i", &mapped, "-O", "mecab"], Some(text.as_bytes()))?;
            if a != b {
                // tolerated only if some line has several optimal paths
                let rd = RefDict::new(&case.spec, &[]);
                if case.sentences.iter().all(|s| rd.lattice(s, false, 0).eos_npaths <= 1) {
                    return Err(format!(
                        "tokenize output differs after reorder → map: {:?} vs {:?}",
                        String::from_utf8_lossy(&a),
                        String::from_utf8_lossy(&b)
                    ));
                }
            }
            Ok(())
        })();
        done += 1;
        if let Err(e) = verdict {
            let rc = crate::props::c13::ReorderCase {
                lines: (0..case.sentences.len()).collect(),
                base: case,
            };
            let path = write_replay(opts, "C13", "reorder", &e, &rc, &format!("cli-{k}-seed{}", opts.seed));
            rep.violations.push(Violation {
                sub: "cli_reorder_map".into(),
                reason: e,
                replay: path,
            });
            break;
        }
    }
    rep.evaluations += done;
    rep.subs.push(serde_json::json!({"sub": "cli_reorder_map", "pipelines": done, "wall_s": t0.elapsed().as_secs_f64(),
        "what": "compile → reorder → map → tokenize with the real binaries (zstd images) on generated files"}));
    rep.rules.push("[cli_reorder_map] generated dictionaries and line files through the real binaries: the .lmap/.rmap files list the library's id order, the map tool accepts them, and tokenize prints identical mecab output before and after mapping".into());
}

/// C19 through the binaries: compile + tokenize (mecab mode) → Corpus::from_reader → equals the
/// library's tokens; then `split` emits parseable files whose union equals the input examples.
pub fn c19(opts: &Opts, rep: &mut Report, n: u32) {
    let Some(bins) = bin_dir() else {
        rep.notes.push("CLI tier skipped: binaries not built (VERIF_CLI_BIN unset)".into());
        return;
    };
    let t0 = std::time::Instant::now();
    let mut done = 0u64;
    type Sent = Vec<(String, String)>;
    let parse = |bytes: &[u8]| -> Result<Vec<Sent>, String> {
        Corpus::from_reader(bytes)
            .map(|c| c.iter().map(|e| e.tokens().iter().map(|w| (w.surface().to_string(), w.feature().to_string())).collect()).collect())
            .map_err(|e| e.to_string())
    };
    for (k, mut case) in cases(opts.seed, 0xC19C, n, true).into_iter().enumerate() {
        case.sentences.push("EOS".into());
        case.sentences.push("aEOSa EOS".into());
        let w = Work::new(opts, "c19");
        let o: TokOpts = case.opts.first().cloned().unwrap_or_default();
        let verdict = (|| -> Result<(), String> {
            let dic = compile(&bins, &w, &case, "sys.dic.zst")?;
            let mut text: String = case.sentences.join("\n");
            text.push('\n');
            let mgl = o.max_grouping_len.to_string();
            let mut args: Vec<&str> = vec!["-i", &dic, "-O", "mecab"];
            if o.ignore_space {
                args.push("-S");
            }
            if o.max_grouping_len != 0 {
                args.push("-M");
                args.push(&mgl);
            }
            let ucsv;
            if let Some(u) = &case.user {
                ucsv = w.w("user.csv", render_lex_rows(u, 0).as_bytes());
                args.push("-u");
                args.push(&ucsv);
            }
            let out = run(&bins.join("tokenize"), &args, Some(text.as_bytes()))?;
            let parsed = parse(&out).map_err(|e| format!("tokenize output rejected as a corpus: {e}; output {:?}", String::from_utf8_lossy(&out)))?;
            let d = build_case_dict(&case.spec.render(), case.user.as_deref(), None, false)?;
            let tokenizer = crate::refmodel::make_tokenizer_h(d, o.ignore_space, o.max_grouping_len, o.history)?;
            let expect: Vec<Sent> = text
                .lines()
                .map(|l| tokenize_fresh(&tokenizer, l).into_iter().map(|t| (t.surface, t.feature)).collect::<Sent>())
                .filter(|s: &Sent| !s.is_empty())
                .collect();
            if parsed != expect {
                return Err(format!("the CLI's mecab output parses as {parsed:?}, the library's tokens are {expect:?}"));
            }
            // split
            let inp = w.w("corpus.txt", &out);
            let (a, b, c) = (w.p("train.txt"), w.p("valid.txt"), w.p("test.txt"));
            run(&bins.join("split"), &["-i", &inp, "-t", &a, "-v", &b, "-e", &c, "--valid-ratio", "0.3", "--test-ratio", "0.3"], None)?;
            let mut union: Vec<Sent> = vec![];
            for f in [&a, &b, &c] {
                let bytes = std::fs::read(f).map_err(|e| format!("{f}: {e}"))?;
                union.extend(parse(&bytes).map_err(|e| format!("split wrote an unparseable file {f}: {e}"))?);
            }
            let mut x = union;
            let mut y = expect;
            x.sort();
            y.sort();
            if x != y {
                return Err("the union of the files written by split differs from the input examples".into());
            }
            Ok(())
        })();
        done += 1;
        if let Err(e) = verdict {
            let path = write_replay(opts, "C19", "tokenizer_output", &e, &case, &format!("cli-{k}-seed{}", opts.seed));
            rep.violations.push(Violation {
                sub: "cli_tokenize_split".into(),
                reason: e,
                replay: path,
            });
            break;
        }
    }
    rep.evaluations += done;
    rep.subs.push(serde_json::json!({"sub": "cli_tokenize_split", "pipelines": done, "wall_s": t0.elapsed().as_secs_f64(),
        "what": "compile → tokenize -O mecab → Corpus::from_reader → split with the real binaries on generated files"}));
    rep.rules.push("[cli_tokenize_split] generated dictionaries/options/lines through the real compile and tokenize binaries: the printed text parses into exactly the library's tokens; split writes parseable files whose union equals the input".into());
}
