//! C19 — The corpus text format round-trips and accepts the tokenizer's output.
use std::path::Path;

use proptest::collection::vec;
use proptest::prelude::*;
use serde::{Deserialize, Serialize};
use vibrato::trainer::Corpus;

use crate::engine::{guard, pick, run_sub, Ctx, Opts, Report, Sub, Tier};
use crate::gen::dict::DictParams;
use crate::props::common::{build_case_dict, tok_case, TokCase, TokCaseParams};
use crate::refmodel::{tokens_of};

#[derive(Clone, Debug, Serialize, Deserialize, PartialEq, Eq, Hash)]
pub struct CorpusCase {
    /// sentences of (surface, feature); a sentence may have no words
    pub sentences: Vec<Vec<(String, String)>>,
    pub final_newline: bool,
    /// optional malformed line inserted at (sentence index, word index)
    pub malformed: Option<(usize, String)>,
    /// one word (by running number) whose surface (or feature) is stretched to this many bytes:
    /// (word number, bytes, multi-byte text, feature instead of surface)
    #[serde(default)]
    pub stretch: Option<(usize, u32, bool, bool)>,
}

impl CorpusCase {
    /// The sentences with the stretched word in place.
    pub fn effective(&self) -> Vec<Vec<(String, String)>> {
        let mut s = self.sentences.clone();
        if let Some((k, bytes, multibyte, on_feature)) = self.stretch {
            let n: usize = s.iter().map(|x| x.len()).sum();
            if n > 0 {
                let mut k = k % n;
                for sent in s.iter_mut() {
                    if k < sent.len() {
                        let unit = if multibyte { "あ" } else { "x" };
                        let mut t = unit.repeat(bytes as usize / unit.len());
                        while t.len() < bytes as usize {
                            t.push('y');
                        }
                        if on_feature {
                            sent[k].1 = t;
                        } else {
                            sent[k].0 = t;
                        }
                        break;
                    }
                    k -= sent.len();
                }
            }
        }
        s
    }
}

pub struct Format;

const SURF: &[&str] = &["a", "京都", "EOS", "é", "x y", "\u{1F600}", "東", "EOS2", " ", "1,2", "\"q\"", "\u{3000}"];
const FEAT: &[&str] = &["", "N", "名詞,固有名詞", "*", "a b", "x,\"y,z\"", "EOS", "0/1", " "];
const BAD: &[&str] = &["a\tb\tc", "no-tab-line", "EOS\tx\ty", "\t\t", "EOSX", " EOS", "EOS ", "<INVALID-UTF8>\tx", "a\t<INVALID-UTF8>"];

pub fn render_corpus(sentences: &[Vec<(String, String)>], final_newline: bool) -> String {
    let mut s = String::new();
    for sent in sentences {
        for (a, b) in sent {
            s.push_str(&format!("{a}\t{b}\n"));
        }
        s.push_str("EOS\n");
    }
    if !final_newline && s.ends_with('\n') {
        s.pop();
    }
    s
}

fn parse(text: &str) -> Result<Result<Vec<Vec<(String, String)>>, String>, String> {
    // the marker stands for a byte sequence that is not valid UTF-8 (a corpus in another encoding)
    let bytes: Vec<u8> = {
        let m = "<INVALID-UTF8>".as_bytes();
        let t = text.as_bytes();
        let mut out = vec![];
        let mut i = 0;
        while i < t.len() {
            if t[i..].starts_with(m) {
                out.extend_from_slice(&[0x93, 0xFA, 0xFF]);
                i += m.len();
            } else {
                out.push(t[i]);
                i += 1;
            }
        }
        out
    };
    guard(|| {
        Corpus::from_reader(&bytes[..])
            .map(|c| {
                c.iter()
                    .map(|e| e.tokens().iter().map(|w| (w.surface().to_string(), w.feature().to_string())).collect())
                    .collect()
            })
            .map_err(|e| e.to_string())
    })
    .map_err(|p| format!("Corpus::from_reader: {p}"))
}

fn write_all(text: &str) -> Result<String, String> {
    guard(|| -> Result<String, String> {
        let c = Corpus::from_reader(text.as_bytes()).map_err(|e| e.to_string())?;
        let mut out = vec![];
        for e in c.iter() {
            e.write(&mut out).map_err(|e| e.to_string())?;
        }
        String::from_utf8(out).map_err(|e| e.to_string())
    })
    .map_err(|p| format!("Example::write: {p}"))?
}

impl Sub for Format {
    type Case = CorpusCase;
    fn name(&self) -> &'static str {
        "format"
    }
    fn strategy(&self, _tier: Tier) -> BoxedStrategy<CorpusCase> {
        (
            vec(vec((any::<u16>(), any::<u16>()), 0..=6), 0..=6),
            any::<bool>(),
            proptest::option::weighted(0.25, (any::<u16>(), any::<u16>())),
            proptest::option::weighted(
                0.03,
                (any::<u16>(), prop_oneof![Just(255u32), Just(256), Just(65_535), Just(65_536), Just(65_537), Just(70_000), Just(131_072)], any::<bool>(), prop::bool::weighted(0.3)),
            ),
        )
            .prop_map(|(raw, final_newline, bad, stretch)| {
                let sentences: Vec<Vec<(String, String)>> = raw
                    .iter()
                    .map(|s| s.iter().map(|&(a, b)| (SURF[pick(a, SURF.len())].to_string(), FEAT[pick(b, FEAT.len())].to_string())).collect())
                    .collect();
                let malformed = bad.map(|(i, k)| (pick(i, sentences.len() + 1), BAD[pick(k, BAD.len())].to_string()));
                CorpusCase {
                    sentences,
                    final_newline,
                    malformed,
                    stretch: stretch.map(|(k, b, m, f)| (usize::from(k), b, m, f)),
                }
            })
            .boxed()
    }
    fn rule(&self) -> String {
        "logical corpora of 0-6 sentences × 0-6 (surface, feature) words incl. the surface 'EOS' with a feature, empty features, quoted/comma features, multi-byte text, sentences with no words, with/without final newline; in 3% of the cases one surface or feature stretched to 255/256/65535/65536/65537/70000/131072 bytes; \
         optionally one malformed line (two tabs, no tab, 'EOS' with extra columns, near-miss EOS, a line that is not valid UTF-8); oracle: parse(render(C)) = C minus empty sentences; writing every example reproduces the canonical rendering byte for byte; \
         parse(write(parse(x))) = parse(x); malformed ⇒ Err; non-trivial = ≥2 sentences, a dropped empty sentence or a surface equal to EOS; distinct = hash(text)".into()
    }
    fn check(&self, case: &CorpusCase, ctx: &mut Ctx) -> Result<(), String> {
        let sentences = case.effective();
        let text = render_corpus(&sentences, case.final_newline);
        let short = |t: &str| -> String { if t.len() > 600 { format!("{}… ({} bytes)", t.chars().take(200).collect::<String>(), t.len()) } else { t.to_string() } };
        ctx.eval();
        if let Some((at, line)) = &case.malformed {
            // insert the malformed line before sentence `at`'s EOS
            let mut lines: Vec<String> = text.lines().map(|s| s.to_string()).collect();
            let pos = lines
                .iter()
                .enumerate()
                .filter(|(_, l)| l.as_str() == "EOS")
                .map(|(i, _)| i)
                .nth(*at)
                .unwrap_or(lines.len());
            lines.insert(pos, line.clone());
            let bad_text = lines.join("\n") + "\n";
            match parse(&bad_text)? {
                Err(_) => {
                    ctx.label("malformed_rejected");
                }
                Ok(p) => return Err(format!("malformed line {line:?} accepted: {bad_text:?} parsed as {p:?}")),
            }
        }
        let parsed = parse(&text)?.map_err(|e| format!("well-formed corpus rejected: {e}; text = {text:?}"))?;
        let want: Vec<Vec<(String, String)>> = sentences.iter().filter(|s| s.iter().any(|w| !w.0.is_empty())).cloned().collect();
        if parsed != want {
            if text.len() > 600 {
                let lens = |v: &Vec<Vec<(String, String)>>| v.iter().map(|s| s.iter().map(|w| (w.0.len(), w.1.len())).collect::<Vec<_>>()).collect::<Vec<_>>();
                return Err(format!("parse(render(C)) differs from C; (surface, feature) byte lengths parsed {:?}, expected {:?}; text = {:?}", lens(&parsed), lens(&want), short(&text)));
            }
            return Err(format!("parse(render(C)) = {parsed:?}, expected {want:?}; text = {text:?}"));
        }
        let written = write_all(&text)?;
        let canon = render_corpus(&want, true);
        if written != canon {
            return Err(format!("writing the parsed examples gives {:?}, canonical rendering is {:?}", short(&written), short(&canon)));
        }
        let reparsed = parse(&written)?.map_err(|e| format!("written corpus rejected: {e}"))?;
        if reparsed != parsed {
            return Err("parse(write(parse(x))) != parse(x)".into());
        }
        let dropped = want.len() < sentences.len();
        let eos_surface = sentences.iter().flatten().any(|w| w.0 == "EOS");
        let longest = sentences.iter().flatten().map(|w| w.0.len().max(w.1.len())).max().unwrap_or(0);
        ctx.label_if(longest >= 255, "word_of_255_or_more_bytes");
        ctx.label_if(longest >= 65_536, "word_of_65536_or_more_bytes");
        ctx.label_if(dropped, "empty_sentence_dropped");
        ctx.label_if(eos_surface, "surface_EOS");
        ctx.label_if(!case.final_newline, "no_final_newline");
        if want.len() >= 2 || dropped || eos_surface {
            ctx.nontrivial(&text);
        }
        ctx.sample(|| serde_json::json!({"text": short(&text), "malformed": case.malformed, "stretch": case.stretch}));
        Ok(())
    }
}

// ---------------------------------------------------------------------------------------------
// closure under tokenizer output

pub struct TokenizerOutput;

/// Characters excluded from inputs (the conservative reading of "tab or line-break characters").
pub fn is_break(c: char) -> bool {
    matches!(c, '\t' | '\n' | '\u{B}' | '\u{C}' | '\r' | '\u{85}' | '\u{2028}' | '\u{2029}')
}

impl Sub for TokenizerOutput {
    type Case = TokCase;
    fn name(&self) -> &'static str {
        "tokenizer_output"
    }
    fn strategy(&self, _tier: Tier) -> BoxedStrategy<TokCase> {
        let p = TokCaseParams {
            dict: DictParams {
                max_rows: 16,
                ..DictParams::default()
            },
            n_sentences: 6,
            with_user: true,
            with_mapping: false,
            ..TokCaseParams::default()
        };
        tok_case(p)
            .prop_map(|mut c| {
                for s in c.sentences.iter_mut() {
                    *s = s.chars().filter(|&ch| !is_break(ch)).collect();
                }
                // inputs that produce a token whose surface is literally EOS
                c.sentences.push("EOS".to_string());
                c.sentences.push("aEOSa EOS".to_string());
                // a run of one character longer than 2^16 bytes (one grouped unknown token, or tens of thousands of them)
                // (only where 66 000 steps of the largest word + connection cost stay inside i32, cf. the domain bound of C01/C02)
                let conn = crate::refmodel::RefConn::from_spec(&c.spec.conn);
                let max_conn = conn.cost.iter().flatten().map(|x| x.abs()).max().unwrap_or(0);
                let max_word = c.spec.lex.iter().map(|r| i64::from(r.cost).abs())
                    .chain(c.spec.unk.iter().map(|r| i64::from(r.cost).abs()))
                    .chain(c.user.iter().flatten().map(|r| i64::from(r.cost).abs()))
                    .max()
                    .unwrap_or(0);
                if c.sentences[0].len() % 32 == 3 && (max_conn + max_word) * 66_002 < i64::from(i32::MAX) {
                    let ch = c.sentences[0].chars().next().unwrap_or('a');
                    c.sentences.push(std::iter::repeat(ch).take(66_000).collect());
                }
                c
            })
            .boxed()
    }
    fn rule(&self) -> String {
        "DictSpec dictionaries (features without tab/line break) × options × tab-free single-line inputs (incl. inputs that yield a token 'EOS'), formatted exactly as tokenize/src/main.rs does in mecab mode \
         (surface TAB feature per token, then EOS); oracle: the parsed corpus has one example per input line with ≥1 token, whose words equal the worker's tokens (surface, feature) in order; \
         non-trivial = ≥2 lines with tokens; distinct = hash(output text)".into()
    }
    fn check(&self, case: &TokCase, ctx: &mut Ctx) -> Result<(), String> {
        let files = case.spec.render();
        for o in &case.opts {
            let dict = build_case_dict(&files, case.user.as_deref(), None, false)?;
            let tokenizer = crate::refmodel::make_tokenizer_h(dict, o.ignore_space, o.max_grouping_len, o.history)?;
            let mut w = tokenizer.new_worker();
            let mut out = String::new();
            let mut expect: Vec<Vec<(String, String)>> = vec![];
            for s in &case.sentences {
                let toks = guard(|| {
                    w.reset_sentence(s);
                    w.tokenize();
                    tokens_of(&w)
                })
                .map_err(|p| format!("tokenize({:?}…): {p}", s.chars().take(60).collect::<String>()))?;
                // tokenize/src/main.rs, OutputMode::Mecab
                for t in &toks {
                    out.push_str(&t.surface);
                    out.push('\t');
                    out.push_str(&t.feature);
                    out.push('\n');
                }
                out.push_str("EOS\n");
                if !toks.is_empty() {
                    expect.push(toks.iter().map(|t| (t.surface.clone(), t.feature.clone())).collect());
                }
            }
            ctx.eval();
            let short = |t: &str| -> String { if t.len() > 800 { format!("{}… ({} bytes)", t.chars().take(300).collect::<String>(), t.len()) } else { t.to_string() } };
            let parsed = parse(&out)?.map_err(|e| format!("tokenizer output rejected as a corpus: {e}; output = {:?}", short(&out)))?;
            if parsed != expect {
                if out.len() > 800 {
                    let lens = |v: &Vec<Vec<(String, String)>>| v.iter().map(|s| s.iter().take(5).map(|w| (w.0.len(), w.1.len())).collect::<Vec<_>>()).collect::<Vec<_>>();
                    return Err(format!("tokenizer output parsed differently from the tokenizer's tokens; (surface, feature) byte lengths of the first words per line: parsed {:?}, tokens {:?}", lens(&parsed), lens(&expect)));
                }
                return Err(format!("tokenizer output parsed as {parsed:?}, the tokenizer's tokens were {expect:?}; output = {out:?}"));
            }
            ctx.label_if(expect.iter().flatten().any(|w| w.0.len() >= 65_536), "token_of_65536_or_more_bytes");
            ctx.label_if(expect.iter().flatten().any(|w| w.0 == "EOS"), "token_surface_EOS");
            ctx.label_if(o.ignore_space, "ignore_space");
            if expect.len() >= 2 {
                ctx.nontrivial(&out);
            }
            ctx.sample(|| serde_json::json!({"output": short(&out)}));
        }
        Ok(())
    }
}

pub fn run(opts: &Opts) -> Report {
    let mut rep = Report::new("C19", "exploration");
    rep.assumptions = vec![
        "surfaces and features contain no tab, LF, VT, FF, CR, NEL, LS or PS (conservative reading of 'line-break characters')".into(),
        "every generated sentence is terminated by EOS (text after the last EOS has no specified meaning)".into(),
    ];
    let a = Format;
    let b = TokenizerOutput;
    crate::props::committed_replays(&a, opts, &mut rep);
    crate::props::committed_replays(&b, opts, &mut rep);
    run_sub(&a, opts, opts.tier.pick(40_000, 600_000), &mut rep);
    run_sub(&b, opts, opts.tier.pick(8000, 120_000), &mut rep);
    crate::props::cli::c19(opts, &mut rep, opts.tier.pick(40, 600));
    rep
}

pub fn replay(path: &Path) -> Option<i32> {
    crate::props::try_strict(&Format, "C19", path).or_else(|| crate::props::try_strict(&TokenizerOutput, "C19", path))
}
