//! One module per property: strategy + oracle + non-triviality classifier.
use std::path::Path;

use serde::Deserialize;

use crate::engine::{run_replay_file, strict_replay, Expect, Opts, Report, Sub};

pub mod c01;
pub mod c02;
pub mod c04;
pub mod c05;
pub mod c06;
pub mod c07;
pub mod c08;
pub mod c09;
pub mod c10;
pub mod c11;
pub mod c12;
pub mod c13;
pub mod c14;
pub mod c15;
pub mod c17;
pub mod c19;
pub mod c20;
pub mod cli;
pub mod trainc;
pub mod dictops;
pub mod common;
pub mod scale;

#[derive(Deserialize, Clone, Debug)]
pub struct Finding {
    pub property: String,
    pub sub: String,
    pub key: String,
    /// "open" or "fixed"
    pub status: String,
    #[serde(default)]
    pub commit: Option<String>,
    pub what: String,
    /// Substring the failure reason must contain for an open finding to count as the same one.
    #[serde(default)]
    pub signature: String,
    /// Path relative to /verif.
    pub repro: String,
}

pub fn load_findings(opts: &Opts) -> Vec<Finding> {
    let p = opts.verif_dir.join("known_findings.json");
    match std::fs::read_to_string(&p) {
        Ok(t) => serde_json::from_str(&t).unwrap_or_else(|e| {
            println!("INCONCLUSIVE cannot parse {p:?}: {e}");
            std::process::exit(2);
        }),
        Err(_) => vec![],
    }
}

/// Runs the committed replays of one sub-check: every entry of known_findings.json for
/// (property, sub) plus every file under replays/<property>/golden-<sub>-*.json (must pass).
pub fn committed_replays<S: Sub>(s: &S, opts: &Opts, report: &mut Report) {
    for f in load_findings(opts) {
        if f.property != report.property || f.sub != s.name() {
            continue;
        }
        let path = opts.verif_dir.join(&f.repro);
        let expect = if f.status == "open" {
            Expect::KnownFinding {
                what: format!("{} [{}]", f.what, f.key),
                sig: f.signature.clone(),
            }
        } else {
            Expect::Pass
        };
        if let Err(e) = run_replay_file(s, &path, &expect, report) {
            println!("INCONCLUSIVE cannot run replay {e}");
            std::process::exit(2);
        }
    }
    let dir = opts.verif_dir.join("replays").join(report.property);
    if let Ok(rd) = std::fs::read_dir(&dir) {
        let mut files: Vec<_> = rd.filter_map(|e| e.ok()).map(|e| e.path()).collect();
        files.sort();
        let prefix = format!("golden-{}-", s.name());
        for p in files {
            let name = p.file_name().unwrap().to_string_lossy().to_string();
            if name.starts_with(&prefix) && name.ends_with(".json") {
                if let Err(e) = run_replay_file(s, &p, &Expect::Pass, report) {
                    println!("INCONCLUSIVE cannot run replay {e}");
                    std::process::exit(2);
                }
            }
        }
    }
}

/// Tries a strict replay with this sub; returns Some(exit code) if the file belongs to it.
pub fn try_strict<S: Sub>(s: &S, property: &str, path: &Path) -> Option<i32> {
    match strict_replay(s, path)? {
        Ok(()) => {
            println!("REPLAY-PASS property={property} sub={} replay={}", s.name(), path.display());
            Some(0)
        }
        Err(reason) => {
            println!("REPLAY-FAIL property={property} sub={} reason={reason}", s.name());
            println!("VIOLATION property={property} replay={}", path.display());
            Some(1)
        }
    }
}

pub fn run(id: &str, opts: &Opts) -> Option<Report> {
    Some(match id {
        "C01" => c01::run(opts),
        "C02" => c02::run_c02(opts),
        "C03" => c02::run_c03(opts),
        "C04" => c04::run(opts),
        "C05" => c05::run(opts),
        "C06" => c06::run(opts),
        "C07" => c07::run(opts),
        "C08" => c08::run(opts),
        "C09" => c09::run(opts),
        "C10" => c10::run(opts),
        "C11" => c11::run(opts),
        "C12" => c12::run(opts),
        "C13" => c13::run(opts),
        "C14" => c14::run_c14(opts),
        "C15" => c15::run(opts),
        "C16" => c14::run_c16(opts),
        "C17" => c17::run_c17(opts),
        "C18" => c17::run_c18(opts),
        "C19" => c19::run(opts),
        "C20" => c20::run(opts),
        _ => return None,
    })
}

pub fn replay(id: &str, path: &Path) -> Option<i32> {
    match id {
        "C01" => c01::replay(path),
        "C02" | "C03" => c02::replay(id, path),
        "C04" => c04::replay(path),
        "C05" => c05::replay(path),
        "C06" => c06::replay(path),
        "C07" => c07::replay(path),
        "C08" => c08::replay(path),
        "C09" => c09::replay(path),
        "C10" => c10::replay(path),
        "C11" => c11::replay(path),
        "C12" => c12::replay(path),
        "C13" => c13::replay(path),
        "C14" | "C16" => c14::replay(id, path),
        "C15" => c15::replay(path),
        "C17" | "C18" => c17::replay(id, path),
        "C19" => c19::replay(path),
        "C20" => c20::replay(path),
        _ => None,
    }
}

/// Cross-build exchange entry points (`--xbuild-emit` / `--xbuild-consume`).
pub fn xbuild(id: &str, emit: bool, dir: &Path, seed: u64, n: u32) -> Result<(), String> {
    match (id, emit) {
        ("C05", true) => c05::xbuild_emit(dir, seed, n),
        ("C05", false) => {
            let r = c05::xbuild_consume(dir)?;
            std::fs::write(dir.join("result.json"), serde_json::to_vec_pretty(&r).unwrap()).map_err(|e| e.to_string())
        }
        ("C07", true) => c07::xbuild_emit(dir, seed, n),
        ("C07", false) => {
            let r = c07::xbuild_consume(dir)?;
            std::fs::write(dir.join("result.json"), serde_json::to_vec_pretty(&r).unwrap()).map_err(|e| e.to_string())
        }
        _ => Err(format!("no cross-build exchange for {id}")),
    }
}
