//! C15 — A trained model round-trips through write_model/read_model.
use std::path::Path;

use proptest::collection::vec;
use proptest::prelude::*;
use serde::{Deserialize, Serialize};
use vibrato::trainer::Model;

use crate::engine::{guard, run_sub, Ctx, Opts, Report, Sub, Tier};
use crate::gen::train::{train_spec, TrainSpec};
use crate::props::trainc::{gen_bigram, gen_dict, known_empty_bigram_table, train, BigramOut, DictOut};

#[derive(Clone, Debug, Serialize, Deserialize, PartialEq, Eq, Hash)]
pub enum MOp {
    Gen,
    GenBigram,
    /// read_user_lexicon with the k-th user CSV (spec.user split into single-row lexicons)
    AddUser(usize),
    /// write_model + read_model on the reloaded side only
    WriteReadAgain,
}

#[derive(Clone, Debug, Serialize, Deserialize, PartialEq, Eq, Hash)]
pub struct ModelCase {
    pub spec: TrainSpec,
    /// operations before the model is written (on the in-memory model only: Gen / GenBigram)
    pub before: Vec<MOp>,
    /// operations applied to both the in-memory model and the reloaded one
    pub after: Vec<MOp>,
}

pub struct ModelRoundTrip;

fn write_model(m: &Model) -> Result<Vec<u8>, String> {
    let mut buf = vec![];
    let n = guard(|| m.write_model(&mut buf)).map_err(|p| format!("write_model: {p}"))?.map_err(|e| format!("write_model: {e}"))?;
    if n != buf.len() {
        return Err(format!("write_model reported {n} bytes but emitted {}", buf.len()));
    }
    Ok(buf)
}

fn read_model(b: &[u8]) -> Result<Model, String> {
    guard(|| Model::read_model(b)).map_err(|p| format!("read_model: {p}"))?.map_err(|e| format!("read_model of a freshly written model: {e}"))
}

fn sorted_lines(s: &str) -> Vec<&str> {
    let mut v: Vec<&str> = s.lines().collect();
    v.sort_unstable();
    v
}

fn same_bigram(a: &BigramOut, b: &BigramOut) -> Option<String> {
    if a.left != b.left {
        return Some(format!("bigram.left differs: {:?} vs {:?}", a.left, b.left));
    }
    if a.right != b.right {
        return Some(format!("bigram.right differs: {:?} vs {:?}", a.right, b.right));
    }
    if sorted_lines(&a.cost) != sorted_lines(&b.cost) {
        return Some(format!("bigram.cost differs as a multiset of lines: {:?} vs {:?}", a.cost, b.cost));
    }
    None
}

fn same_dict(a: &DictOut, b: &DictOut) -> Option<String> {
    for (n, x, y) in [("lex.csv", &a.lex, &b.lex), ("matrix.def", &a.matrix, &b.matrix), ("unk.def", &a.unk, &b.unk), ("user.csv", &a.user, &b.user)] {
        if x != y {
            return Some(format!("{n} differs: {x:?} vs {y:?}"));
        }
    }
    None
}

impl Sub for ModelRoundTrip {
    type Case = ModelCase;
    fn name(&self) -> &'static str {
        "model_roundtrip"
    }
    fn max_shrink_iters(&self) -> u32 {
        300
    }
    fn strategy(&self, _tier: Tier) -> BoxedStrategy<ModelCase> {
        (train_spec(6, true), vec(0u8..2, 0..=3), vec(0u8..8, 1..=6), prop_oneof![1 => Just(0u32), 1 => any::<u32>()])
            .prop_map(|(mut spec, b, a, bare)| {
                spec.export_before_user = false;
                // In half of the cases some templates lose their literal prefix and some cells become empty:
                // feature strings may then be "" or "*" themselves (only this property's differential oracle
                // is indifferent to what such strings mean elsewhere).
                if bare != 0 {
                    let strip = |t: &mut String, on: bool| {
                        if on {
                            if let Some((_, rest)) = t.split_once(':') {
                                if !rest.is_empty() {
                                    *t = rest.to_string();
                                }
                            }
                        }
                    };
                    for (j, t) in spec.unigram_templates.iter_mut().enumerate() {
                        strip(t, (bare >> j) & 1 == 1);
                    }
                    for (j, (l, r)) in spec.bigram_templates.iter_mut().enumerate() {
                        strip(l, (bare >> (4 + j)) & 1 == 1);
                        strip(r, (bare >> (4 + j)) & 1 == 1 || (bare >> 12) & 1 == 1);
                    }
                    for (i, row) in spec.lex.iter_mut().enumerate() {
                        if (bare >> (16 + i % 8)) & 1 == 1 && !row.cells.is_empty() {
                            let k = (i + (bare >> 24) as usize) % row.cells.len();
                            row.cells[k] = String::new();
                        }
                    }
                    if let Some(u) = spec.user.as_mut() {
                        for (i, row) in u.iter_mut().enumerate() {
                            if (bare >> (20 + i % 4)) & 1 == 1 && !row.cells.is_empty() {
                                let k = (i + (bare >> 24) as usize) % row.cells.len();
                                row.cells[k] = String::new();
                            }
                        }
                    }
                    // the corpus refers to seed rows by their rendered feature string: rebuild it
                    spec.resync_corpus();
                }
                // one more user row (first, so that the first AddUser of the history loads it) whose merged weight tends to
                // exceed every seed word's: loading it moves the 16-bit scale of the costs
                spec.add_weight_raising_user_row(false);
                let nuser = spec.user.as_ref().map_or(0, |u| u.len());
                let mut before: Vec<MOp> = b.iter().map(|k| if *k == 0 { MOp::Gen } else { MOp::GenBigram }).collect();
                // mostly at least one dictionary generation before the model is written (whatever the in-memory model
                // caches at that point must not survive a later read_user_lexicon)
                if !before.contains(&MOp::Gen) && a.first().map_or(false, |x| x % 4 != 0) {
                    before.push(MOp::Gen);
                }
                let mut added = 0;
                let mut after = vec![];
                for k in a {
                    after.push(match k {
                        0..=2 => MOp::Gen,
                        3 | 4 => MOp::GenBigram,
                        5 | 6 if added < nuser => {
                            added += 1;
                            MOp::AddUser(added - 1)
                        }
                        7 if added == 0 => MOp::WriteReadAgain,
                        _ => MOp::Gen,
                    });
                }
                // make the interesting history frequent: a user lexicon added after the round
                // trip and followed by both generations
                if added < nuser && !after.contains(&MOp::WriteReadAgain) {
                    after.push(MOp::AddUser(added));
                    after.push(MOp::Gen);
                    after.push(MOp::GenBigram);
                } else if added > 0 {
                    after.push(MOp::Gen);
                }
                ModelCase { spec, before, after }
            })
            .boxed()
    }
    fn rule(&self) -> String {
        "a trained TrainSpec model M; 0-2 generations on M; M' = read_model(write_model(M)); then a history of 1-6 operations {write_dictionary, write_bigram_details, read_user_lexicon(one more row), \
         write/read M' again (only before any user lexicon: user entries are not part of the model file)} applied to both in lock-step; oracle: write_model reports the emitted length; after every generation \
         lex.csv, matrix.def, unk.def, user.csv, bigram.left, bigram.right are byte-identical between M and M' and bigram.cost equal as a multiset of lines; generating twice from the same model gives the same files; \
         non-trivial = a user lexicon is added after the round trip and followed by a generation; distinct = hash(spec, history)".into()
    }
    fn check(&self, case: &ModelCase, ctx: &mut Ctx) -> Result<(), String> {
        let spec = &case.spec;
        let mut m = match train(spec, false) {
            Ok(m) => m,
            Err(e) if crate::props::trainc::is_timeout(&e, ctx) => return Ok(()),
            Err(e) => return Err(e),
        };
        for op in &case.before {
            match op {
                MOp::Gen => {
                    gen_dict(&mut m)?;
                }
                _ => {
                    gen_bigram(&mut m)?;
                }
            }
        }
        let bytes = write_model(&m)?;
        let mut r = read_model(&bytes)?;
        let users: Vec<String> = spec
            .user_csv()
            .map(|u| u.lines().map(|l| format!("{l}\n")).collect())
            .unwrap_or_default();
        let mut last_m: Option<DictOut> = None;
        let mut gen_after_user = false;
        let mut user_added = false;
        for (i, op) in case.after.iter().enumerate() {
            match op {
                MOp::Gen | MOp::GenBigram => {
                    if !ctx.strict && (known_empty_bigram_table(&mut m)? || known_empty_bigram_table(&mut r)?) {
                        ctx.count("excluded_by_known_finding_empty_bigram_table_with_user_lexicon", 1);
                        return Ok(());
                    }
                }
                _ => {}
            }
            match op {
                MOp::Gen => {
                    let a = gen_dict(&mut m)?;
                    let a2 = gen_dict(&mut m)?;
                    let b = gen_dict(&mut r)?;
                    ctx.eval();
                    if let Some(d) = same_dict(&a, &a2) {
                        return Err(format!("op {i}: generating twice from the same model differs: {d}"));
                    }
                    if let Some(d) = same_dict(&a, &b) {
                        return Err(format!("op {i} of {:?}: in-memory model and read-back model generate different files: {d}", case.after));
                    }
                    gen_after_user |= user_added;
                    last_m = Some(a);
                }
                MOp::GenBigram => {
                    let a = gen_bigram(&mut m)?;
                    let a2 = gen_bigram(&mut m)?;
                    let b = gen_bigram(&mut r)?;
                    ctx.eval();
                    if let Some(d) = same_bigram(&a, &a2) {
                        return Err(format!("op {i}: generating bigram details twice from the same model differs: {d}"));
                    }
                    if let Some(d) = same_bigram(&a, &b) {
                        return Err(format!("op {i} of {:?}: in-memory model and read-back model generate different bigram files: {d}", case.after));
                    }
                    gen_after_user |= user_added;
                }
                MOp::AddUser(k) => {
                    let csv = &users[*k];
                    for (name, model) in [("in-memory", &mut m), ("read-back", &mut r)] {
                        guard(|| model.read_user_lexicon(csv.as_bytes()))
                            .map_err(|p| format!("read_user_lexicon on the {name} model: {p}"))?
                            .map_err(|e| format!("read_user_lexicon on the {name} model: {e}"))?;
                    }
                    user_added = true;
                }
                MOp::WriteReadAgain => {
                    let b2 = write_model(&r)?;
                    r = read_model(&b2)?;
                }
            }
        }
        let _ = last_m;
        ctx.label_if(user_added, "user_added_after_roundtrip");
        ctx.label_if(!case.before.is_empty(), "generated_before_write");
        ctx.label_if(case.after.contains(&MOp::WriteReadAgain), "second_roundtrip");
        if gen_after_user {
            ctx.nontrivial(&(spec, &case.before, &case.after));
        }
        ctx.sample(|| serde_json::json!({"before": format!("{:?}", case.before), "after": format!("{:?}", case.after), "model_bytes": bytes.len(),
            "feature.def": spec.feature_def(), "rewrite.def": spec.rewrite.render(), "user.csv": spec.user_csv()}));
        Ok(())
    }
}

pub fn run(opts: &Opts) -> Report {
    let mut rep = Report::new("C15", "exploration");
    rep.assumptions = vec![
        "user entries are not part of the model file, so user lexicons are (re)added after the round trip on both sides, as dictgen does".into(),
        "bigram.cost is compared as a multiset of lines (hash-map order), all other files byte for byte".into(),
    ];
    let a = ModelRoundTrip;
    crate::props::committed_replays(&a, opts, &mut rep);
    run_sub(&a, opts, opts.tier.pick(6000, 90_000), &mut rep);
    rep
}

pub fn replay(path: &Path) -> Option<i32> {
    crate::props::try_strict(&ModelRoundTrip, "C15", path)
}
