//! Shared helpers for the trainer-side properties (C14, C15, C16, C18).
use vibrato::trainer::{Corpus, Model, Trainer, TrainerConfig};

use crate::engine::guard;
use crate::gen::train::TrainSpec;

#[derive(Clone, Debug, PartialEq, Eq, Default)]
pub struct DictOut {
    pub lex: String,
    pub matrix: String,
    pub unk: String,
    pub user: String,
}

#[derive(Clone, Debug, PartialEq, Eq, Default)]
pub struct BigramOut {
    pub left: String,
    pub right: String,
    pub cost: String,
}

/// Message of the error returned when a training run does not come back in time.
pub const TRAINING_TIMEOUT: &str = "training did not terminate";

/// Returns true (and counts) if `e` is the training time-out: the optimiser's backtracking line
/// search (argmin, used by rucrf) has no iteration limit and loops forever on a few generated
/// configurations. Such a configuration is outside "training succeeds"; the case is skipped.
pub fn is_timeout(e: &str, ctx: &mut crate::engine::Ctx) -> bool {
    if e.contains(TRAINING_TIMEOUT) {
        ctx.count("skipped_training_did_not_terminate", 1);
        true
    } else {
        false
    }
}

/// Trains a model (single-threaded) on a helper thread with a time limit: a run that does not
/// finish within 30 s is abandoned (the thread is leaked; it ends with the process).
pub fn train(spec: &TrainSpec, with_user: bool) -> Result<Model, String> {
    let spec2 = spec.clone();
    let (tx, rx) = std::sync::mpsc::channel();
    std::thread::Builder::new()
        .name("training".into())
        // the trie builder recurses once per character of a surface: room for long surfaces
        .stack_size(256 << 20)
        .spawn(move || {
            let _ = tx.send(train_inner(&spec2, with_user));
        })
        .map_err(|e| format!("cannot spawn the training thread: {e}"))?;
    match rx.recv_timeout(std::time::Duration::from_secs(30)) {
        Ok(r) => r,
        Err(_) => Err(format!("{TRAINING_TIMEOUT} within 30 s (skipped)")),
    }
}

fn train_inner(spec: &TrainSpec, with_user: bool) -> Result<Model, String> {
    let r = guard(|| -> Result<Model, String> {
        let config = TrainerConfig::from_readers(
            spec.lex_csv().as_bytes(),
            spec.char_def().as_bytes(),
            spec.unk_def().as_bytes(),
            spec.feature_def().as_bytes(),
            spec.rewrite.render().as_bytes(),
        )
        .map_err(|e| format!("TrainerConfig::from_readers: {e}"))?;
        let corpus = Corpus::from_reader(spec.corpus_text().as_bytes()).map_err(|e| format!("Corpus::from_reader: {e}"))?;
        let trainer = Trainer::new(config)
            .map_err(|e| format!("Trainer::new: {e}"))?
            .regularization_cost(spec.lambda_value())
            .max_iter(u64::from(spec.max_iter))
            .num_threads(1);
        let mut model = trainer.train(corpus).map_err(|e| format!("train: {e}"))?;
        if with_user {
            if let Some(u) = spec.user_csv() {
                if spec.reload_before_user {
                    let mut buf = vec![];
                    model.write_model(&mut buf).map_err(|e| format!("write_model: {e}"))?;
                    model = Model::read_model(&buf[..]).map_err(|e| format!("read_model: {e}"))?;
                }
                if spec.export_before_user {
                    // an export before the user lexicon is read must not influence later exports
                    let (mut a, mut b, mut c, mut d) = (vec![], vec![], vec![], vec![]);
                    model.write_dictionary(&mut a, &mut b, &mut c, &mut d).map_err(|e| format!("write_dictionary (first export): {e}"))?;
                    let (mut a, mut b, mut c) = (vec![], vec![], vec![]);
                    model.write_bigram_details(&mut a, &mut b, &mut c).map_err(|e| format!("write_bigram_details (first export): {e}"))?;
                }
                model.read_user_lexicon(u.as_bytes()).map_err(|e| format!("read_user_lexicon: {e}"))?;
            }
        }
        Ok(model)
    });
    match r {
        Ok(x) => x,
        Err(p) => Err(format!("training: {p}")),
    }
}

pub fn gen_dict(model: &mut Model) -> Result<DictOut, String> {
    let r = guard(|| -> Result<DictOut, String> {
        let (mut a, mut b, mut c, mut d) = (vec![], vec![], vec![], vec![]);
        model.write_dictionary(&mut a, &mut b, &mut c, &mut d).map_err(|e| format!("write_dictionary: {e}"))?;
        let s = |v: Vec<u8>| String::from_utf8(v).map_err(|e| format!("output is not UTF-8: {e}"));
        Ok(DictOut {
            lex: s(a)?,
            matrix: s(b)?,
            unk: s(c)?,
            user: s(d)?,
        })
    });
    match r {
        Ok(x) => x,
        Err(p) => Err(format!("write_dictionary: {p}")),
    }
}

pub fn gen_bigram(model: &mut Model) -> Result<BigramOut, String> {
    let r = guard(|| -> Result<BigramOut, String> {
        let (mut a, mut b, mut c) = (vec![], vec![], vec![]);
        model.write_bigram_details(&mut a, &mut b, &mut c).map_err(|e| format!("write_bigram_details: {e}"))?;
        let s = |v: Vec<u8>| String::from_utf8(v).map_err(|e| format!("output is not UTF-8: {e}"));
        Ok(BigramOut {
            left: s(a)?,
            right: s(b)?,
            cost: s(c)?,
        })
    });
    match r {
        Ok(x) => x,
        Err(p) => Err(format!("write_bigram_details: {p}")),
    }
}

/// Independent parser of matrix.def: (num_right, num_left, cells).
pub fn parse_matrix(text: &str) -> Result<(usize, usize, Vec<(usize, usize, i64)>), String> {
    let mut lines = text.lines();
    let h: Vec<&str> = lines.next().ok_or("matrix.def is empty")?.split(' ').collect();
    if h.len() != 2 {
        return Err("bad matrix.def header".into());
    }
    let nr: usize = h[0].parse().map_err(|_| "bad header")?;
    let nl: usize = h[1].parse().map_err(|_| "bad header")?;
    let mut cells = vec![];
    for l in lines {
        if l.is_empty() {
            continue;
        }
        let c: Vec<&str> = l.split(' ').collect();
        if c.len() != 3 {
            return Err(format!("bad matrix.def row {l:?}"));
        }
        cells.push((
            c[0].parse().map_err(|_| format!("bad row {l:?}"))?,
            c[1].parse().map_err(|_| format!("bad row {l:?}"))?,
            c[2].parse().map_err(|_| format!("bad row {l:?}"))?,
        ));
    }
    Ok((nr, nl, cells))
}

/// Splits an emitted lexicon row into (surface, left, right, cost, feature tail) with the
/// reference CSV splitter for the surface and raw text for the tail.
pub fn split_lex_row(line: &str) -> Result<(String, u32, u32, i64, String), String> {
    // the surface may be quoted: find the end of the first cell
    let b: Vec<char> = line.chars().collect();
    let mut i = 0;
    let mut surface = String::new();
    if b.first() == Some(&'"') {
        i = 1;
        loop {
            if i >= b.len() {
                return Err(format!("unterminated quoted surface in {line:?}"));
            }
            if b[i] == '"' {
                if i + 1 < b.len() && b[i + 1] == '"' {
                    surface.push('"');
                    i += 2;
                    continue;
                }
                i += 1;
                break;
            }
            surface.push(b[i]);
            i += 1;
        }
    } else {
        while i < b.len() && b[i] != ',' {
            surface.push(b[i]);
            i += 1;
        }
    }
    if i >= b.len() || b[i] != ',' {
        return Err(format!("row has no fields after the surface: {line:?}"));
    }
    let rest: String = b[i + 1..].iter().collect();
    let mut it = rest.splitn(4, ',');
    let l = it.next().ok_or("missing left id")?;
    let r = it.next().ok_or("missing right id")?;
    let c = it.next().ok_or("missing cost")?;
    let tail = it.next().unwrap_or("").to_string();
    Ok((
        surface,
        l.parse().map_err(|_| format!("bad left id in {line:?}"))?,
        r.parse().map_err(|_| format!("bad right id in {line:?}"))?,
        c.parse().map_err(|_| format!("bad cost in {line:?}"))?,
        tail,
    ))
}

/// Open known finding (C14): a model trained without any bigram feature has an empty
/// bigram weight table, and rucrf's merge() indexes its entry 0 as soon as a user-lexicon row
/// carries a bigram feature. Such cases are excluded from the search and counted.
pub fn known_empty_bigram_table(model: &mut Model) -> Result<bool, String> {
    let v = guard(|| vibrato::verif_hooks::train::model_view(model))
        .map_err(|p| format!("model_view: {p}"))?
        .map_err(|e| format!("model_view: {e}"))?;
    Ok(v.bigram_weight_indices.is_empty()
        && v.user_entries.iter().any(|u| {
            let (_, r, l) = &v.feature_sets[(u.5 - 1) as usize];
            r.iter().chain(l.iter()).any(|x| x.is_some())
        }))
}
