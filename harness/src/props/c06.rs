//! C06 — Connection-id remapping never changes tokenization (metamorphic).
use std::path::Path;

use proptest::collection::vec;
use proptest::prelude::*;
use serde::{Deserialize, Serialize};

use crate::engine::{guard, pick, run_sub, Ctx, Opts, Report, Sub, Tier};
use crate::gen::dict::{DictParams, LexRow};
use crate::props::common::{build_case_dict, is_identity, new_ids, perm_from_keys, tok_case, Mapping, TokCase, TokCaseParams};
use crate::props::dictops::{apply, apply_all, brief_toks, observe, DOp};
use crate::refmodel::RefDict;

#[derive(Clone, Debug, Serialize, Deserialize, PartialEq, Eq, Hash)]
pub enum Step {
    Map,
    LoadUser,
    WriteRead,
}

#[derive(Clone, Debug, Serialize, Deserialize, PartialEq, Eq, Hash)]
pub struct MapCase {
    /// spec, user rows, sentences, options (base.mapping is unused here)
    pub base: TokCase,
    /// Mappings applied by successive `Step::Map`s (at most two).
    pub maps: Vec<Mapping>,
    pub steps: Vec<Step>,
}

pub struct Remap;

fn map_case() -> BoxedStrategy<MapCase> {
    let p = TokCaseParams {
        dict: DictParams {
            max_rows: 20,
            ..DictParams::default()
        },
        n_sentences: 6,
        max_chunks: 8,
        max_chars: 24,
        with_user: true,
        with_mapping: false,
        space_only_if_exclusive: false,
    };
    (
        tok_case(p),
        vec((vec(any::<u16>(), 8), vec(any::<u16>(), 8)), 2),
        vec(0u8..6, 1..=6),
    )
        .prop_map(|(base, keys, raw)| {
            let nl = base.spec.conn.num_left();
            let nr = base.spec.conn.num_right();
            let maps: Vec<Mapping> = keys
                .iter()
                .map(|(l, r)| (perm_from_keys(l, nl), perm_from_keys(r, nr)))
                .collect();
            let mut nmap = 0;
            let mut steps = vec![];
            for k in raw {
                match k {
                    0..=2 if nmap < 2 => {
                        nmap += 1;
                        steps.push(Step::Map);
                    }
                    3 | 4 if base.user.is_some() => steps.push(Step::LoadUser),
                    _ => steps.push(Step::WriteRead),
                }
            }
            if nmap == 0 {
                steps.insert(0, Step::Map);
            }
            MapCase { base, maps, steps }
        })
        .boxed()
}

impl Sub for Remap {
    type Case = MapCase;
    fn name(&self) -> &'static str {
        "remap"
    }
    fn strategy(&self, _tier: Tier) -> BoxedStrategy<MapCase> {
        map_case()
    }
    fn max_shrink_iters(&self) -> u32 {
        800
    }
    fn rule(&self) -> String {
        "DictSpec (all connector kinds) × permutations of left ids 1..L-1 and right ids 1..R-1 × an order of 1-6 steps over {map, map again, \
         load user lexicon, write/read}; oracle (metamorphic): against the unmapped dictionary with the same user rows, tokens have equal surface, feature, \
         lexicon type, word cost and total cost, ids equal π(id) for the composed permutation, and cost'(π_R(r), π_L(l)) == cost(r,l) for every pair; \
         differing token sequences are tolerated only when the reference proves several optimal paths; non-trivial = a non-identity permutation on both sides \
         and a reported path using ≥2 distinct ids; distinct = hash(files, mappings, steps, sentence)".into()
    }
    fn check(&self, case: &MapCase, ctx: &mut Ctx) -> Result<(), String> {
        self.check_case(case, ctx)?;
        let b = &case.base;
        ctx.sample(|| {
            serde_json::json!({"connector": b.spec.conn.kind(), "maps": case.maps, "steps": format!("{:?}", case.steps),
                "user_rows": b.user.as_ref().map_or(0, |u| u.len()), "sentences": b.sentences})
        });
        Ok(())
    }
}

impl Remap {
    pub fn check_case(&self, case: &MapCase, ctx: &mut Ctx) -> Result<(), String> {
        let b = &case.base;
        let files = b.spec.render();
        let user_rows: &[LexRow] = b.user.as_deref().unwrap_or(&[]);
        let nl = b.spec.conn.num_left();
        let nr = b.spec.conn.num_right();
        // build the operated dictionary
        let mut ops = vec![];
        let mut pl: Vec<u16> = (0..nl).map(|x| x as u16).collect(); // composed: old -> new (up to 65536 ids)
        let mut pr: Vec<u16> = (0..nr).map(|x| x as u16).collect();
        let mut nmap = 0;
        let mut user_loaded = false;
        let mut user_after_map = false;
        for s in &case.steps {
            match s {
                Step::Map => {
                    let (l, r) = &case.maps[nmap];
                    nmap += 1;
                    let (ln, rn) = (new_ids(l), new_ids(r));
                    for x in pl.iter_mut() {
                        *x = ln[usize::from(*x)];
                    }
                    for x in pr.iter_mut() {
                        *x = rn[usize::from(*x)];
                    }
                    ops.push(DOp::Map(l.clone(), r.clone()));
                }
                Step::LoadUser => {
                    user_loaded = true;
                    user_after_map |= nmap > 0;
                    ops.push(DOp::LoadUser(user_rows.to_vec()));
                }
                Step::WriteRead => ops.push(DOp::WriteRead),
            }
        }
        let d = files.build().map_err(|e| format!("build failed: {e}"))?;
        let d = apply_all(d, &ops)?;
        let d0 = build_case_dict(&files, if user_loaded { Some(user_rows) } else { None }, None, false)?;
        let om = observe(d, &b.sentences, &b.opts)?;
        let o0 = observe(d0, &b.sentences, &b.opts)?;
        // connection costs for all pairs incl. row/column 0
        if (om.num_left, om.num_right) != (nl, nr) {
            return Err(format!("mapped connector is {}x{}, expected {nr}x{nl}", om.num_right, om.num_left));
        }
        for r in 0..nr {
            for l in 0..nl {
                let c0 = o0.costs[r * nl + l];
                let c1 = om.costs[usize::from(pr[r]) * nl + usize::from(pl[l])];
                ctx.eval();
                if c0 != c1 {
                    return Err(format!(
                        "cost(right {r}, left {l}) = {c0} before mapping but cost'(π_R={}, π_L={}) = {c1} after {:?}",
                        pr[r], pl[l], case.steps
                    ));
                }
            }
        }
        let rd = RefDict::new(&b.spec, if user_loaded { user_rows } else { &[] });
        for (oi, o) in b.opts.iter().enumerate() {
            for (si, s) in b.sentences.iter().enumerate() {
                let t0 = &o0.tokens[oi][si];
                let t1 = &om.tokens[oi][si];
                ctx.eval();
                let same_seq = t0.len() == t1.len()
                    && t0.iter().zip(t1).all(|(a, b)| {
                        a.range_char == b.range_char && a.lex_type == b.lex_type && a.word_id == b.word_id
                    });
                if !same_seq {
                    // only legitimate when several optimal paths exist and both are optimal
                    let c12 = !o.ignore_space || crate::props::common::c12_precondition(&b.spec, rd.user);
                    let total = |t: &Vec<crate::refmodel::Tok>, pr_inv: bool| -> Option<i64> {
                        let last = t.last()?;
                        let _ = pr_inv;
                        Some(i64::from(last.total_cost))
                    };
                    let _ = total;
                    let ambiguous = c12 && rd.lattice(s, o.ignore_space, o.max_grouping_len).eos_npaths > 1;
                    let end0 = t0.last().map(|t| i64::from(t.total_cost) + rd.conn.get(t.right_id, 0));
                    let inv_r = |new: u16| pr.iter().position(|&x| x == new).unwrap() as u16;
                    let end1 = t1.last().map(|t| i64::from(t.total_cost) + rd.conn.get(inv_r(t.right_id), 0));
                    if ambiguous && end0 == end1 {
                        ctx.count("tie_ambiguous", 1);
                        continue;
                    }
                    return Err(format!(
                        "sentence {s:?} opts {o:?}: token sequence changed by mapping: {:?} vs {:?}",
                        brief_toks(t0),
                        brief_toks(t1)
                    ));
                }
                for (i, (a, bt)) in t0.iter().zip(t1).enumerate() {
                    if a.surface != bt.surface
                        || a.feature != bt.feature
                        || a.word_cost != bt.word_cost
                        || a.total_cost != bt.total_cost
                        || a.range_byte != bt.range_byte
                    {
                        return Err(format!("sentence {s:?} opts {o:?}: token {i} changed by mapping: {a:?} vs {bt:?}"));
                    }
                    if bt.left_id != pl[usize::from(a.left_id)] || bt.right_id != pr[usize::from(a.right_id)] {
                        return Err(format!(
                            "sentence {s:?}: token {i} ids ({},{}) are not π of the original ids ({},{}) = ({},{})",
                            bt.left_id,
                            bt.right_id,
                            a.left_id,
                            a.right_id,
                            pl[usize::from(a.left_id)],
                            pr[usize::from(a.right_id)]
                        ));
                    }
                }
                let non_id = case.maps.iter().take(nmap).any(|(l, r)| !is_identity(l) && !is_identity(r));
                let mut ids: Vec<u16> = t0.iter().flat_map(|t| [t.left_id, t.right_id]).collect();
                ids.sort_unstable();
                ids.dedup();
                if non_id && ids.len() >= 2 {
                    ctx.nontrivial(&(&files, &case.maps, &case.steps, s, o));
                }
            }
        }
        ctx.label(b.spec.conn.kind());
        ctx.label_if(nmap == 2, "mapped_twice");
        ctx.label_if(user_loaded && !user_after_map, "user_before_map");
        ctx.label_if(user_after_map, "user_after_map");
        ctx.label_if(user_after_map && nmap == 2 && case.steps.iter().rposition(|s| *s == Step::LoadUser) > case.steps.iter().rposition(|s| *s == Step::Map), "user_after_second_map");
        ctx.label_if(case.steps.contains(&Step::WriteRead), "with_roundtrip");
        Ok(())
    }
}

// ---------------------------------------------------------------------------------------------
// Connectors with (nearly) the largest possible number of ids

#[derive(Clone, Debug, Serialize, Deserialize, PartialEq, Eq, Hash)]
pub struct ExtremeMapCase {
    /// ids on the large side (65535 is the largest a matrix.def header can announce)
    pub n_big: u32,
    pub n_small: u16,
    /// connector kind: 0 = matrix.def (at most 65535 ids), 1 = raw bigram connector (one or two templates),
    /// 2 = dual bigram connector with nine templates and a distinct feature per id (as many matrix-part classes as ids)
    #[serde(default)]
    pub conn: u8,
    /// true: the left side is the large one
    pub big_left: bool,
    /// permutation of the large side: 0 = identity, 1 = reversal, 2 = rotation by `k`, 3 = swap of the last id with id `k`
    pub perm: u8,
    pub k: u16,
    /// 0 = [map], 1 = [map, map], 2 = [load user, map], 3 = [map, load user], 4 = [map, write/read], 5 = [load user, map, map]
    pub history: u8,
    pub salt: u16,
}

impl ExtremeMapCase {
    fn perm_list(&self, n: usize, kind: u8) -> Vec<u16> {
        // list of old ids in the order of their new ids 1..n-1
        let m = n - 1;
        let k = usize::from(self.k) % m.max(1);
        let mut v: Vec<u16> = (1..=m as u16).collect();
        match kind {
            1 => v.reverse(),
            2 => v.rotate_left(k),
            3 => {
                if m >= 1 {
                    v.swap(m - 1, k);
                }
            }
            _ => {}
        }
        v
    }
    pub fn expand(&self) -> MapCase {
        use crate::gen::dict::{CatSpec, CharDef, ConnSpec, DictSpec, MatrixSpec, RangeSpec, TokOpts, UnkRow};
        // numbers of ids incl. id 0; a matrix.def header cannot announce more than 65535
        let n_big = if self.conn % 3 == 0 { self.n_big.min(65_535) } else { self.n_big.min(65_536) };
        let (nl, nr): (u32, u32) = if self.big_left { (n_big, u32::from(self.n_small)) } else { (u32::from(self.n_small), n_big) };
        let salt = u32::from(self.salt);
        let idl = |i: u32| -> u16 {
            (match i % 4 {
                0 => nl - 1,
                1 => 1 % nl,
                2 => (i.wrapping_mul(2654435761) ^ salt) % nl,
                _ => nl / 2,
            }) as u16
        };
        let idr = |i: u32| -> u16 {
            (match i % 4 {
                0 => 1 % nr,
                1 => nr - 1,
                2 => (i.wrapping_mul(40503) ^ salt) % nr,
                _ => nr / 2,
            }) as u16
        };
        let mut lex = vec![];
        for (i, sf) in ["a", "b", "ab", "c", "ca", "bc", "a", "b"].iter().enumerate() {
            let i = i as u32;
            lex.push(LexRow { surface: (*sf).into(), left: idl(i), right: idr(i + 1), cost: (((i * 37 + salt) % 200) as i16) - 100, feature: format!("S{i}") });
        }
        let user: Vec<LexRow> = ["abc", "c", "ba"]
            .iter()
            .enumerate()
            .map(|(i, sf)| LexRow { surface: (*sf).into(), left: idl(i as u32 + 2), right: idr(i as u32), cost: -50 - i as i16, feature: format!("V{i}") })
            .collect();
        let mut cells = vec![];
        for i in 0..40u32 {
            cells.push((idr(i.wrapping_mul(7) + i / 4), idl(i.wrapping_mul(5) + i / 3), (((i * 53 + salt) % 400) as i16) - 200));
        }
        let spec = DictSpec {
            chardef: CharDef {
                cats: vec![
                    CatSpec { name: "DEFAULT".into(), invoke: true, group: true, length: 0 },
                    CatSpec { name: "SPACE".into(), invoke: false, group: true, length: 0 },
                ],
                ranges: vec![RangeSpec { start: 0x20, end: 0x20, cats: vec![1] }],
                style: 0,
            },
            unk: vec![
                UnkRow { cat: 0, left: idl(9), right: idr(9), cost: 300, feature: "U,DEFAULT".into() },
                UnkRow { cat: 1, left: 0, right: 0, cost: 10, feature: "U,SPACE".into() },
            ],
            lex,
            conn: match self.conn % 3 {
                0 => ConnSpec::Matrix(MatrixSpec { num_right: nr as u16, num_left: nl as u16, cells }),
                kind => {
                    // bigram model reproducing a sparse cost function: K templates; the feature of id i at
                    // every position is "r{i mod m}" / "l{i mod m}" (raw: m = 7, ids share features) or "r{i}" / "l{i}"
                    // (dual: every id its own class); cost lines for the pairs of the cells above plus a few more
                    let k = if kind == 2 { 9 } else { 1 + (self.salt % 2) as usize };
                    let m: u32 = if kind == 2 { u32::MAX } else { 7 };
                    let rows = |n: u32, side: char| -> Vec<Vec<String>> { (1..n).map(|i| vec![format!("{side}{}", i % m); k]).collect() };
                    let mut costs = vec![];
                    let mut seen = std::collections::HashSet::new();
                    for (r, l, c) in &cells {
                        let rf = if *r == 0 { String::new() } else { format!("r{}", u32::from(*r) % m) };
                        let lf = if *l == 0 { String::new() } else { format!("l{}", u32::from(*l) % m) };
                        if seen.insert((rf.clone(), lf.clone())) {
                            costs.push((rf, lf, i32::from(*c)));
                        }
                    }
                    if kind == 2 {
                        // every feature of the large side is listed in bigram.cost: otherwise unlisted features collapse
                        // into one class and the pre-summed matrix stays small
                        let (bn, bs, ss, sn) = if self.big_left { (nl, 'l', 'r', nr) } else { (nr, 'r', 'l', nl) };
                        for i in 1..bn {
                            let big = format!("{bs}{i}");
                            let small = format!("{ss}{}", 1 + i % (sn - 1).max(1));
                            let (rf, lf) = if self.big_left { (small, big) } else { (big, small) };
                            if seen.insert((rf.clone(), lf.clone())) {
                                costs.push((rf, lf, ((i * 31 + salt) % 15) as i32 - 7));
                            }
                        }
                    }
                    ConnSpec::Bigram { model: crate::gen::bigram::BigramModel { right_rows: rows(nr, 'r'), left_rows: rows(nl, 'l'), costs }, dual: kind == 2 }
                }
            },
            csv_style: 0,
        };
        let big = n_big as usize;
        let small = usize::from(self.n_small);
        let mk = |kind_big: u8, kind_small: u8| -> Mapping {
            let b = self.perm_list(big, kind_big);
            let s = self.perm_list(small, kind_small);
            if self.big_left {
                (b, s)
            } else {
                (s, b)
            }
        };
        let maps = vec![mk(self.perm, 1), mk(1 + self.perm % 3, 0)];
        let steps = match self.history {
            0 => vec![Step::Map],
            1 => vec![Step::Map, Step::Map],
            2 => vec![Step::LoadUser, Step::Map],
            3 => vec![Step::Map, Step::LoadUser],
            4 => vec![Step::Map, Step::WriteRead],
            _ => vec![Step::LoadUser, Step::Map, Step::Map],
        };
        MapCase {
            base: TokCase {
                spec,
                user: Some(user),
                mapping: None,
                opts: vec![TokOpts { ignore_space: false, max_grouping_len: 0, history: 0 }],
                sentences: ["abc", "cab", "ab c", "bca", "xa", ""].iter().map(|s| s.to_string()).collect(),
            },
            maps,
            steps,
        }
    }
}

/// `dual`: only dual connectors with one class per id (tens of seconds per case: run as few, evenly sharded cases);
/// otherwise matrix and raw connectors.
pub struct RemapExtreme {
    pub dual: bool,
}

impl Sub for RemapExtreme {
    type Case = ExtremeMapCase;
    fn name(&self) -> &'static str {
        if self.dual {
            "remap_extreme_dual"
        } else {
            "remap_extreme"
        }
    }
    fn max_shrink_iters(&self) -> u32 {
        12
    }
    fn strategy(&self, _tier: Tier) -> BoxedStrategy<ExtremeMapCase> {
        (
            prop_oneof![4 => Just(65_535u32), 3 => Just(65_536u32), 3 => 65_530u32..=65_534, 1 => 255u32..=257, 1 => 32_767u32..=32_769],
            2u16..=4,
            any::<bool>(),
            0u8..4,
            any::<u16>(),
            0u8..6,
            any::<u16>(),
            if self.dual { Just(2u8).boxed() } else { prop_oneof![2 => Just(0u8), 1 => Just(1u8)].boxed() },
        )
            .prop_map(|(n_big, n_small, big_left, perm, k, history, salt, conn)| ExtremeMapCase { n_big, n_small, big_left, perm, k, history, salt, conn })
            .boxed()
    }
    fn rule(&self) -> String {
        "connectors with 65536 (bigram connectors only: every u16 id in use), 65535 (the largest a matrix.def header can announce), 65530..65534, 32767..32769 or 255..257 ids on one side and 2-4 on the other — matrix.def, raw bigram connector (1-2 templates, ids sharing features) or dual bigram connector (9 templates, one class per id); words, unknown entries and 40 cells on the first, last,          middle and scattered ids; the large side permuted by the identity, a reversal, a rotation or a swap of the last id, the small side reversed; histories [map], [map,map], [user,map], [map,user], [map,write/read], [user,map,map];          oracle: the 'remap' oracle (every valid mapping is accepted; tokens equal up to π; cost'(π(r),π(l)) == cost(r,l) for every pair); non-trivial = ≥ 65530 ids and a non-identity permutation; distinct = hash(case)".into()
    }
    fn check(&self, case: &ExtremeMapCase, ctx: &mut Ctx) -> Result<(), String> {
        let mc = case.expand();
        Remap.check_case(&mc, ctx)?;
        ctx.label_if(case.n_big == 65_535, "exactly_65535_ids");
        ctx.label_if(case.n_big == 65_536 && case.conn % 3 != 0, "exactly_65536_ids_bigram_connector");
        ctx.label_if(case.big_left, "large_left_side");
        ctx.label_if(!case.big_left, "large_right_side");
        ctx.label(match case.perm {
            0 => "identity",
            1 => "reversal",
            2 => "rotation",
            _ => "swap_last",
        });
        if case.n_big >= 65_530 && case.perm != 0 {
            ctx.nontrivial(case);
        }
        ctx.sample(|| serde_json::to_value(case).unwrap());
        Ok(())
    }
}

// ---------------------------------------------------------------------------------------------
// Malformed mappings

#[derive(Clone, Debug, Serialize, Deserialize, PartialEq, Eq, Hash)]
pub struct BadMapCase {
    pub base: TokCase,
    pub left: Vec<u16>,
    pub right: Vec<u16>,
    pub kind: String,
    pub after_valid_map: bool,
}

pub struct Malformed;

fn corrupt(valid: &[u16], kind: u8, r: u16) -> Option<(Vec<u16>, &'static str)> {
    let n = valid.len(); // number of non-zero ids
    let mut v = valid.to_vec();
    Some(match kind {
        0 => {
            // contains 0
            if n == 0 {
                (vec![0], "contains_zero")
            } else {
                v[pick(r, n)] = 0;
                (v, "contains_zero")
            }
        }
        1 if n >= 2 => {
            // duplicate (and thereby omits one)
            let i = pick(r, n);
            let j = (i + 1) % n;
            v[i] = v[j];
            (v, "duplicate")
        }
        2 if n >= 1 => {
            v.remove(pick(r, n));
            (v, "too_short")
        }
        3 => {
            v.push((n + 1) as u16);
            (v, "too_long_next_id")
        }
        4 if n >= 1 => {
            v.push(v[pick(r, n)]);
            (v, "too_long_duplicate")
        }
        5 if n >= 1 => (vec![], "empty"),
        6 if n >= 1 => {
            v[pick(r, n)] = (n as u16) + 1 + (r % 50);
            (v, "out_of_range")
        }
        7 if n >= 1 => {
            v[pick(r, n)] = u16::MAX;
            (v, "u16_max")
        }
        _ => return None,
    })
}

impl Sub for Malformed {
    type Case = BadMapCase;
    fn name(&self) -> &'static str {
        "malformed"
    }
    fn strategy(&self, _tier: Tier) -> BoxedStrategy<BadMapCase> {
        let p = TokCaseParams {
            dict: DictParams {
                max_rows: 6,
                ..DictParams::default()
            },
            n_sentences: 1,
            with_user: true,
            with_mapping: true,
            ..TokCaseParams::default()
        };
        (tok_case(p), vec(any::<u16>(), 8), vec(any::<u16>(), 8), 0u8..8, any::<u16>(), 0u8..3, any::<bool>())
            .prop_filter_map("corruption not applicable", |(base, lk, rk, kind, r, side, after)| {
                let nl = base.spec.conn.num_left();
                let nr = base.spec.conn.num_right();
                let l = perm_from_keys(&lk, nl);
                let rr = perm_from_keys(&rk, nr);
                let (left, right, k) = match side {
                    0 => {
                        let (v, k) = corrupt(&l, kind, r)?;
                        (v, rr, k)
                    }
                    1 => {
                        let (v, k) = corrupt(&rr, kind, r)?;
                        (l, v, k)
                    }
                    _ => {
                        let (a, k) = corrupt(&l, kind, r)?;
                        let (b2, _) = corrupt(&rr, kind, r.wrapping_add(1))?;
                        (a, b2, k)
                    }
                };
                Some(BadMapCase {
                    base,
                    left,
                    right,
                    kind: format!("{k}/side{side}"),
                    after_valid_map: after,
                })
            })
            .boxed()
    }
    fn rule(&self) -> String {
        "one mutation of a valid permutation (contains 0, duplicate, omitted id, too short, too long, empty, out-of-range id, u16::MAX) on the left, right \
         or both lists, applied to a fresh or an already mapped dictionary; oracle: map_connection_ids_from_iter returns Err (not Ok, not a panic); \
         every case is non-trivial; distinct = hash(connector sizes, lists)".into()
    }
    fn check(&self, case: &BadMapCase, ctx: &mut Ctx) -> Result<(), String> {
        let b = &case.base;
        let files = b.spec.render();
        let d = build_case_dict(
            &files,
            b.user.as_deref(),
            if case.after_valid_map { b.mapping.as_ref() } else { None },
            false,
        )?;
        ctx.eval();
        match apply(d, &DOp::Map(case.left.clone(), case.right.clone())) {
            Err(Ok(_)) => {}
            Ok(_) => {
                return Err(format!(
                    "malformed mapping ({}) left={:?} right={:?} was accepted for a {}x{} connector",
                    case.kind,
                    case.left,
                    case.right,
                    b.spec.conn.num_right(),
                    b.spec.conn.num_left()
                ))
            }
            Err(Err(p)) => return Err(format!("malformed mapping ({}) left={:?} right={:?}: {p}", case.kind, case.left, case.right)),
        }
        ctx.label(&case.kind);
        ctx.label(b.spec.conn.kind());
        ctx.nontrivial(&(b.spec.conn.num_left(), b.spec.conn.num_right(), &case.left, &case.right, b.spec.conn.kind()));
        ctx.sample(|| serde_json::json!({"kind": case.kind, "left": case.left, "right": case.right,
            "connector": format!("{} {}x{}", b.spec.conn.kind(), b.spec.conn.num_right(), b.spec.conn.num_left())}));
        Ok(())
    }
}

pub fn run(opts: &Opts) -> Report {
    let mut rep = Report::new("C06", "exploration");
    rep.assumptions = vec![
        "orientation of a mapping list: the i-th item (1-based) names the old id that receives new id i (as map/src/main.rs and C13 rely on)".into(),
        "token sequences are compared exactly unless the reference lattice proves several optimal paths (then only costs)".into(),
    ];
    let a = Remap;
    let m = Malformed;
    crate::props::committed_replays(&a, opts, &mut rep);
    crate::props::committed_replays(&m, opts, &mut rep);
    run_sub(&a, opts, opts.tier.pick(8000, 120_000), &mut rep);
    run_sub(&m, opts, opts.tier.pick(10_000, 120_000), &mut rep);
    crate::props::committed_replays(&RemapExtreme { dual: false }, opts, &mut rep);
    run_sub(&RemapExtreme { dual: false }, opts, opts.tier.pick(96, 1600), &mut rep);
    run_sub(&RemapExtreme { dual: true }, opts, opts.tier.pick(16, 96), &mut rep);
    let _ = guard(|| ());
    rep
}

pub fn replay(path: &Path) -> Option<i32> {
    crate::props::try_strict(&Remap, "C06", path)
        .or_else(|| crate::props::try_strict(&Malformed, "C06", path))
        .or_else(|| crate::props::try_strict(&RemapExtreme { dual: false }, "C06", path))
}
