//! C09 — Truncated or foreign dictionary images are rejected (fault enumeration).
use std::path::Path;
use std::sync::atomic::{AtomicU64, AtomicUsize, Ordering};

use proptest::prelude::*;
use serde::{Deserialize, Serialize};

use crate::engine::{guard, run_sub, write_replay, Ctx, Opts, Report, Sub, Tier, Violation};
use crate::gen::dict::DictParams;
use crate::props::common::{build_case_dict, tok_case, TokCase, TokCaseParams};
use crate::props::dictops::write_image;

/// Magic of the pinned format; the checks use `magic_of(image)` (the first line of a freshly
/// written image) so that a version bump by the maintainers is not reported as a violation.
pub const PINNED_MAGIC: &[u8] = b"VibratoTokenizer 0.5\n";

pub fn magic_of(image: &[u8]) -> &[u8] {
    match image.iter().position(|&b| b == b'\n') {
        Some(p) if p < 64 => &image[..=p],
        _ => &image[..PINNED_MAGIC.len().min(image.len())],
    }
}

#[derive(Clone, Debug, Serialize, Deserialize, PartialEq, Eq, Hash)]
pub enum Fault {
    /// keep only the first `n` bytes
    Cut(usize),
    /// replace byte `pos` of the magic by `byte`
    MagicByte(usize, u8),
    /// replace the whole magic by these bytes (body kept)
    Header(Vec<u8>),
    /// arbitrary stream
    Stream(Vec<u8>),
    /// cut at (1 + mult mod #blocks)·2^log2 + delta: just before/after a multiple of a power of two
    /// (buffer and block sizes of readers), resolved to `Cut` once the image length is known
    CutNear(u8, u16, i8),
}

#[derive(Clone, Debug, Serialize, Deserialize, PartialEq, Eq, Hash)]
pub struct FaultCase {
    pub base: TokCase,
    pub fault: Fault,
}

pub struct Faults;

fn base_case() -> BoxedStrategy<TokCase> {
    tok_case(TokCaseParams {
        dict: DictParams {
            max_rows: 12,
            ..DictParams::default()
        },
        n_sentences: 1,
        with_user: true,
        with_mapping: true,
        ..TokCaseParams::default()
    })
}

pub fn image_of(base: &TokCase) -> Result<Vec<u8>, String> {
    let files = base.spec.render();
    let d = build_case_dict(&files, base.user.as_deref(), base.mapping.as_ref(), false)?;
    guard(|| write_image(&d)).map_err(|p| format!("write: {p}"))?
}

pub fn faulty_stream(image: &[u8], f: &Fault) -> Option<Vec<u8>> {
    let magic = magic_of(image);
    Some(match f {
        Fault::Cut(n) => {
            if *n >= image.len() {
                return None;
            }
            image[..*n].to_vec()
        }
        Fault::MagicByte(pos, b) => {
            if *pos >= magic.len() || image[*pos] == *b {
                return None;
            }
            let mut v = image.to_vec();
            v[*pos] = *b;
            v
        }
        Fault::Header(h) => {
            // a header that starts with the current magic leaves a stream with a corrupted
            // body, which is outside the property's claim
            if h.starts_with(magic) {
                return None;
            }
            let mut v = h.clone();
            v.extend_from_slice(&image[magic.len()..]);
            v
        }
        Fault::Stream(s) => {
            if s.starts_with(magic) {
                return None;
            }
            s.clone()
        }
        // resolved to `Cut` by the caller (needs the image length); a strict replay of an unresolved one cuts in the middle
        Fault::CutNear(..) => image[..image.len() / 2].to_vec(),
    })
}

/// Oracle: reading the stream returns Err (no Ok, no panic).
pub fn must_reject(stream: &[u8]) -> Result<(), String> {
    match guard(|| vibrato::Dictionary::read(stream).is_ok()) {
        Ok(false) => Ok(()),
        Ok(true) => Err("Dictionary::read returned Ok".into()),
        Err(p) => Err(format!("Dictionary::read: {p}")),
    }
}

impl Sub for Faults {
    type Case = FaultCase;
    fn name(&self) -> &'static str {
        "faults"
    }
    fn max_shrink_iters(&self) -> u32 {
        300
    }
    fn strategy(&self, _tier: Tier) -> BoxedStrategy<FaultCase> {
        let old_new: Vec<Vec<u8>> = vec![
            b"VibratoTokenizer 0.4\n".to_vec(),
            b"VibratoTokenizer 0.6\n".to_vec(),
            b"VibratoTokenizer 0.5\r".to_vec(),
            b"VibratoTokenizer 0.5 ".to_vec(),
            b"VibratoTokenizer\t0.5\n".to_vec(),
            b"vibratotokenizer 0.5\n".to_vec(),
            b"VibratoTokenizer 0.50".to_vec(),
            b"VibratoTokenizer 0.5".to_vec(),
            b"".to_vec(),
            b"\0\0\0\0\0\0\0\0\0\0\0\0\0\0\0\0\0\0\0\0\0".to_vec(),
        ];
        (
            base_case(),
            prop_oneof![
                3 => any::<u32>().prop_map(|r| Fault::Cut(r as usize)),
                3 => (9u8..=22, any::<u16>(), -12i8..=12).prop_map(|(k, m, d)| Fault::CutNear(k, m, d)),
                2 => (0usize..21, any::<u8>()).prop_map(|(p, b)| Fault::MagicByte(p, b)),
                2 => proptest::sample::select(old_new).prop_map(Fault::Header),
                1 => proptest::collection::vec(any::<u8>(), 0..200).prop_map(Fault::Stream),
            ],
        )
            .prop_map(|(base, fault)| FaultCase { base, fault })
            .boxed()
    }
    fn rule(&self) -> String {
        "generated dictionary images (all connector kinds, ± user lexicon, ± mapper) × one fault: a random cut point (reduced modulo the image length), a cut within ±12 bytes of a multiple of 2^9..2^22 (reader block sizes), a single-byte substitution in the magic, \
         an older/newer/near-miss version header with a valid body, or a random byte stream; oracle: Dictionary::read returns Err without panicking; non-trivial = fault beyond a plain empty stream; \
         distinct = hash(image, fault)".into()
    }
    fn check(&self, case: &FaultCase, ctx: &mut Ctx) -> Result<(), String> {
        let image = image_of(&case.base)?;
        let fault = match &case.fault {
            Fault::Cut(n) => Fault::Cut(n % image.len()),
            Fault::CutNear(k, m, d) => {
                let block = 1usize << k.min(&30);
                let nblocks = image.len() / block;
                let at = if nblocks == 0 { image.len() / 2 } else { (1 + usize::from(*m) % nblocks) * block };
                ctx.label_if(nblocks > 0, "cut_near_power_of_two_multiple");
                ctx.label_if(nblocks > 0 && block >= (1 << 20), "cut_near_MiB_multiple");
                Fault::Cut((at as i64 + i64::from(*d)).clamp(0, image.len() as i64 - 1) as usize)
            }
            f => f.clone(),
        };
        let Some(stream) = faulty_stream(&image, &fault) else {
            return Ok(());
        };
        ctx.eval();
        must_reject(&stream).map_err(|e| format!("{fault:?} on a {}-byte image: {e}", image.len()))?;
        ctx.label(match fault {
            Fault::Cut(_) => "cut",
            Fault::MagicByte(..) => "magic_byte",
            Fault::Header(_) => "header",
            Fault::Stream(_) => "stream",
            Fault::CutNear(..) => unreachable!(),
        });
        ctx.label(case.base.spec.conn.kind());
        if !stream.is_empty() {
            ctx.nontrivial(&(crate::engine::hash64(&image), &fault));
        }
        ctx.sample(|| serde_json::json!({"fault": format!("{fault:?}"), "image_bytes": image.len(), "connector": case.base.spec.conn.kind()}));
        Ok(())
    }
}

/// Exhaustive enumeration: every strict prefix of each image, and every single-byte substitution
/// of the magic.
fn enumerate(opts: &Opts, rep: &mut Report, n_images: u32, n_full: u32) {
    use proptest::strategy::ValueTree;
    use proptest::test_runner::{Config, RngAlgorithm, TestRng, TestRunner};
    let mut sb = [0u8; 32];
    for (i, c) in sb.chunks_mut(8).enumerate() {
        c.copy_from_slice(&crate::engine::splitmix(opts.seed ^ 0xC09 ^ (i as u64) << 32).to_le_bytes());
    }
    let mut runner = TestRunner::new_with_rng(Config::default(), TestRng::from_seed(RngAlgorithm::ChaCha, &sb));
    let strat = base_case();
    let t0 = std::time::Instant::now();
    let mut images = 0u32;
    let mut full_images = 0u32;
    let mut kinds = std::collections::BTreeMap::new();
    let mut total_reads = 0u64;
    let mut nontrivial = 0u64;
    let mut samples = vec![];
    let mut tries = 0;
    while images < n_images && tries < n_images * 4 {
        tries += 1;
        let base = strat.new_tree(&mut runner).unwrap().current();
        // make sure every connector kind, user lexicon and mapper are represented early
        let want_kind = ["matrix", "raw", "dual"][(images % 3) as usize];
        if base.spec.conn.kind() != want_kind && tries < n_images * 3 {
            continue;
        }
        let Ok(image) = image_of(&base) else { continue };
        images += 1;
        *kinds
            .entry(format!(
                "{}{}{}",
                base.spec.conn.kind(),
                if base.user.is_some() { "+user" } else { "" },
                if base.mapping.is_some() { "+mapped" } else { "" }
            ))
            .or_insert(0u32) += 1;
        let magic = magic_of(&image).to_vec();
        let magic = &magic[..];
        let len = image.len();
        let full = full_images < n_full && len <= 400_000;
        // boundary-focused offsets for the non-exhaustive images: everything outside the
        // 262144-byte character table region at a stride, all offsets near both ends
        let wanted = |k: usize| full || k < 4096 || k + 8192 >= len || k % 61 == 0;
        let next = AtomicUsize::new(0);
        let reads = AtomicU64::new(0);
        let failure: std::sync::Mutex<Option<(usize, String)>> = std::sync::Mutex::new(None);
        std::thread::scope(|sc| {
            for _ in 0..opts.threads.max(1) {
                sc.spawn(|| loop {
                    // blocks of 256 offsets, large offsets first (they are the expensive ones)
                    let b = next.fetch_add(256, Ordering::Relaxed);
                    if b >= len || failure.lock().unwrap().is_some() {
                        break;
                    }
                    let hi = len - b;
                    let lo = hi.saturating_sub(256);
                    for k in lo..hi {
                        if !wanted(k) {
                            continue;
                        }
                        if let Err(e) = must_reject(&image[..k]) {
                            let mut f = failure.lock().unwrap();
                            if f.as_ref().is_none_or(|x| k < x.0) {
                                *f = Some((k, e));
                            }
                            break;
                        }
                        reads.fetch_add(1, Ordering::Relaxed);
                    }
                });
            }
        });
        total_reads += reads.load(Ordering::Relaxed);
        nontrivial += reads.load(Ordering::Relaxed).saturating_sub(magic.len() as u64);
        if full {
            full_images += 1;
        }
        if let Some((k, e)) = failure.into_inner().unwrap() {
            let case = FaultCase {
                base: base.clone(),
                fault: Fault::Cut(k),
            };
            let path = write_replay(opts, "C09", "faults", &e, &case, &format!("prefix-{k}-seed{}", opts.seed));
            rep.violations.push(Violation {
                sub: "prefix_enumeration".into(),
                reason: format!("prefix of {k} bytes of a {len}-byte image ({}): {e}", base.spec.conn.kind()),
                replay: path,
            });
            break;
        }
        // every single-byte substitution of the magic (21 x 255), full body kept
        let mut mfail = None;
        'm: for pos in 0..magic.len() {
            for b in 0..=255u8 {
                if b == magic[pos] {
                    continue;
                }
                let mut v = image.clone();
                v[pos] = b;
                total_reads += 1;
                nontrivial += 1;
                if let Err(e) = must_reject(&v) {
                    mfail = Some((pos, b, e));
                    break 'm;
                }
            }
        }
        if let Some((pos, b, e)) = mfail {
            let case = FaultCase {
                base: base.clone(),
                fault: Fault::MagicByte(pos, b),
            };
            let path = write_replay(opts, "C09", "faults", &e, &case, &format!("magic-{pos}-{b}-seed{}", opts.seed));
            rep.violations.push(Violation {
                sub: "magic_enumeration".into(),
                reason: format!("magic byte {pos} replaced by {b:#04x}: {e}"),
                replay: path,
            });
            break;
        }
        if samples.len() < 3 {
            samples.push(serde_json::json!({"image_bytes": len, "connector": base.spec.conn.kind(), "user": base.user.is_some(),
                "mapped": base.mapping.is_some(), "all_prefixes_enumerated": full, "magic_substitutions": 21 * 255}));
        }
    }
    rep.evaluations += total_reads;
    rep.nontrivial += nontrivial;
    rep.exhaustive = Some(full_images > 0);
    rep.samples.extend(samples.into_iter().map(|s| serde_json::json!({"sub": "prefix_enumeration", "case": s})));
    rep.subs.push(serde_json::json!({"sub": "prefix_and_magic_enumeration", "images": images, "images_with_every_prefix": full_images, "image_kinds": kinds, "reads": total_reads, "wall_s": t0.elapsed().as_secs_f64()}));
    rep.rules.push("[prefix_and_magic_enumeration] for the first images (2 quick / 12 thorough): EVERY strict prefix 0..len-1 (exhaustive); for the remaining images all prefixes shorter than 4096 bytes, all within 8192 bytes of the end and every 61st in between; for every image EVERY single-byte substitution of the 21-byte magic (21×255, exhaustive) must be rejected with Err; \
        distinct non-trivial = (image, offset) pairs with offset beyond the magic + (image, position, byte) substitutions".into());
}

pub fn run(opts: &Opts) -> Report {
    let mut rep = Report::new("C09", "fault_enumeration");
    rep.assumptions = vec![
        "the claim covers truncation and foreign/near-miss magic only; arbitrary corruption of image bodies is not asserted (crawdad's deserializer is not hardened)".into(),
        "exhaustive: true refers to the per-image prefix space and magic-substitution space of the generated images, not to all images".into(),
    ];
    let a = Faults;
    crate::props::committed_replays(&a, opts, &mut rep);
    run_sub(&a, opts, opts.tier.pick(1500, 20_000), &mut rep);
    enumerate(opts, &mut rep, opts.tier.pick(8, 60), opts.tier.pick(2, 12));
    rep
}

pub fn replay(path: &Path) -> Option<i32> {
    crate::props::try_strict(&Faults, "C09", path)
}
