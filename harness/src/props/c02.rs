//! C02 — The reported segmentation is a minimum-cost path.
//! C03 — Candidate words are exactly lexicon prefixes plus MeCab-style unknown words.
//! Both compare the implementation with the reference lattice; they share the case type.
use std::collections::BTreeMap;

use proptest::prelude::*;
use vibrato::verif_hooks::{lattice_dump, LatticeDump};

use crate::engine::{guard, Ctx, Opts, Report, Sub, Tier};
use crate::gen::dict::{ConnChoice, DictParams, SpaceMode};
use crate::props::common::{brief, build_case_dict, tok_case, TokCase, TokCaseParams};
use crate::refmodel::{tokens_of, RefDict, RefLattice, Tok};

#[derive(Clone, Copy, PartialEq, Eq)]
pub enum Which {
    Optimality,
    Candidates,
}

pub struct LatticeCheck {
    pub which: Which,
    pub exclusive_space: bool,
    /// use the repository's own test resource dictionary instead of generated ones
    pub resources: bool,
}

/// The repository's test resources as a logical spec (None if they cannot be read or interpreted).
pub fn resource_spec() -> Option<(crate::gen::dict::DictSpec, Vec<crate::gen::dict::LexRow>)> {
    let dir = std::path::Path::new(env!("CARGO_MANIFEST_DIR")).join("../../repo/vibrato/src/tests/resources");
    let dir = if dir.exists() { dir } else { std::path::PathBuf::from("/repo/vibrato/src/tests/resources") };
    let rd = |n: &str| std::fs::read_to_string(dir.join(n)).ok();
    let spec = crate::gen::dict::spec_from_files(&rd("lex.csv")?, &rd("matrix.def")?, &rd("char.def")?, &rd("unk.def")?)?;
    // user.csv as a logical user lexicon
    let uspec = crate::gen::dict::spec_from_files(&rd("user.csv")?, &rd("matrix.def")?, &rd("char.def")?, &rd("unk.def")?)?;
    Some((spec, uspec.lex))
}

const RES_CHARS: &[char] = &[
    '京', '都', '東', '大', '阪', '一', '二', '三', '人', '本', 'a', 'b', 'k', 'z', 'X', '0', '9', ' ', '\u{3000}', 'に', 'た', 'の', 'カ', 'ー', 'α', 'я', '!', '、',
    '\u{1F600}', '\u{4E00}', '\u{4E8C}', '\u{3400}', '\u{9FFF}', '\u{A000}', '\u{FF21}', '\u{FF10}',
];

fn resource_case() -> BoxedStrategy<TokCase> {
    use proptest::collection::vec;
    (
        vec(vec((0u8..4, any::<u16>(), 1u8..=3), 1..=8), 6),
        any::<bool>(),
        vec((any::<bool>(), 0u8..10, 0u8..8), 2..=3),
    )
        .prop_filter_map("resources unavailable", |(raw, with_user, raw_opts)| {
            let (spec, user) = resource_spec()?;
            let mut sentences = vec![];
            for chunks in raw {
                let mut s = String::new();
                for (kind, r, n) in chunks {
                    match kind {
                        0 => s.push_str(&spec.lex[crate::engine::pick(r, spec.lex.len())].surface),
                        1 if with_user => s.push_str(&user[crate::engine::pick(r, user.len())].surface),
                        _ => {
                            let c = RES_CHARS[crate::engine::pick(r, RES_CHARS.len())];
                            for _ in 0..n {
                                s.push(c);
                            }
                        }
                    }
                }
                sentences.push(s);
            }
            let opts: Vec<crate::gen::dict::TokOpts> = raw_opts
                .iter()
                .map(|&(sp, g, history)| crate::gen::dict::TokOpts {
                    history,
                    ignore_space: sp,
                    max_grouping_len: [0, 0, 0, 1, 2, 3, 24, 24, 1_000_000, 5][usize::from(g)],
                })
                .collect();
            let space_ok = crate::props::common::c12_precondition(&spec, if with_user { &user } else { &[] });
            let opts: Vec<crate::gen::dict::TokOpts> = opts
                .into_iter()
                .map(|mut o: crate::gen::dict::TokOpts| {
                    o.ignore_space &= space_ok;
                    o
                })
                .collect();
            Some(TokCase {
                spec,
                user: with_user.then_some(user),
                mapping: None,
                opts,
                sentences,
            })
        })
        .boxed()
}

type Key = (usize, usize, usize, u8, u32, u16, u16);

fn impl_nodes(d: &LatticeDump) -> BTreeMap<Key, Vec<i32>> {
    let mut m: BTreeMap<Key, Vec<i32>> = BTreeMap::new();
    for n in &d.nodes {
        m.entry((
            n.start_node,
            n.start_word,
            n.end_word,
            n.lex_type,
            n.word_id,
            n.left_id,
            n.right_id,
        ))
        .or_default()
        .push(n.min_cost);
    }
    m
}

fn ref_nodes(l: &RefLattice) -> BTreeMap<Key, Vec<i64>> {
    let mut m: BTreeMap<Key, Vec<i64>> = BTreeMap::new();
    for n in &l.nodes {
        m.entry((
            n.start_node,
            n.start_word,
            n.cand.end,
            n.cand.lex_type,
            n.cand.word_id,
            n.cand.left,
            n.cand.right,
        ))
        .or_default()
        .push(n.best);
    }
    m
}

/// C03 white box: candidate multisets per position are equal.
pub fn compare_candidates(refl: &RefLattice, dump: &LatticeDump) -> Result<(), String> {
    let a = impl_nodes(dump);
    let b = ref_nodes(refl);
    for (k, v) in &b {
        let got = a.get(k).map_or(0, |x| x.len());
        if got != v.len() {
            return Err(format!(
                "candidate (start_node,start_word,end,lex_type,word_id,left,right)={k:?}: reference has {} copies, implementation {got}",
                v.len()
            ));
        }
    }
    for (k, v) in &a {
        if !b.contains_key(k) {
            return Err(format!(
                "implementation offers candidate {k:?} ({} copies) that the reference does not",
                v.len()
            ));
        }
    }
    Ok(())
}

/// C02 white box: an independent Viterbi recurrence over the implementation's *own* candidate
/// nodes (so that candidate generation, C03's concern, cannot influence the verdict), with
/// connection and word costs taken from the reference dictionary. Every node's stored prefix
/// minimum and the EOS minimum must equal the recomputed values. Returns the EOS optimum.
pub fn compare_minima(rd: &RefDict, dump: &LatticeDump) -> Result<i64, String> {
    let n = dump.nodes.len();
    let mut order: Vec<usize> = (0..n).collect();
    order.sort_by_key(|&i| dump.nodes[i].end_word);
    let mut by_end: BTreeMap<usize, Vec<usize>> = BTreeMap::new();
    for (i, nd) in dump.nodes.iter().enumerate() {
        by_end.entry(nd.end_word).or_default().push(i);
    }
    let mut best = vec![i64::MAX; n];
    // (right id, best) of the predecessors ending at position p
    let preds = |p: usize, best: &Vec<i64>| -> Vec<(u16, i64)> {
        if p == 0 {
            return vec![(0, 0)];
        }
        by_end
            .get(&p)
            .map(|v| v.iter().map(|&i| (dump.nodes[i].right_id, best[i])).collect())
            .unwrap_or_default()
    };
    for &i in &order {
        let nd = &dump.nodes[i];
        let (_, el, er, wcost) = rd
            .entry(nd.lex_type, nd.word_id)
            .ok_or_else(|| format!("lattice node names a non-existent entry ({},{})", nd.lex_type, nd.word_id))?;
        if (el, er) != (nd.left_id, nd.right_id) {
            return Err(format!(
                "node {nd:?} carries connection ids ({},{}) but its dictionary entry has ({el},{er}) (ids compared after undoing the id mapping)",
                nd.left_id, nd.right_id
            ));
        }
        if nd.start_node >= nd.end_word {
            return Err(format!("lattice node with start_node {} >= end {}", nd.start_node, nd.end_word));
        }
        let ps = preds(nd.start_node, &best);
        let m = ps
            .iter()
            .filter(|(_, b)| *b != i64::MAX)
            .map(|&(r, b)| b + rd.conn.get(r, nd.left_id))
            .min()
            .ok_or_else(|| format!("lattice node {nd:?} has no predecessor"))?;
        best[i] = m + i64::from(wcost);
        if i64::from(nd.min_cost) != best[i] {
            return Err(format!(
                "node {nd:?}: stored prefix minimum {} != recomputed minimum {} over its predecessors",
                nd.min_cost, best[i]
            ));
        }
    }
    let (from, cost) = dump.eos.ok_or("no EOS node after tokenize")?;
    let m = preds(from, &best)
        .iter()
        .filter(|(_, b)| *b != i64::MAX)
        .map(|&(r, b)| b + rd.conn.get(r, 0))
        .min()
        .ok_or("EOS has no predecessor")?;
    if i64::from(cost) != m {
        return Err(format!("EOS minimum {cost} != recomputed optimum {m} (incl. the connection to id 0)"));
    }
    Ok(m)
}

/// Exhaustive enumeration of all complete paths of the reference lattice (no dynamic programming):
/// an oracle for the oracle, applied when the number of segmentations is small.
pub fn brute_force_min(rd: &RefDict, refl: &RefLattice) -> Option<i64> {
    fn go(rd: &RefDict, refl: &RefLattice, pos: usize, right: u16, acc: i64, best: &mut Option<i64>) {
        if pos == refl.eos_from {
            let t = acc + rd.conn.get(right, 0);
            if best.map_or(true, |b| t < b) {
                *best = Some(t);
            }
            // nodes may also start here only if eos_from < len (trailing spaces): nothing follows
            return;
        }
        for n in refl.nodes.iter().filter(|n| n.start_node == pos) {
            go(rd, refl, n.cand.end, n.cand.right, acc + rd.conn.get(right, n.cand.left) + i64::from(n.cand.cost), best);
        }
    }
    let mut best = None;
    go(rd, refl, 0, 0, 0, &mut best);
    best
}

/// C02 black box: running sums along the reported path and optimality of the total.
pub fn check_reported_path(rd: &RefDict, optimum: i64, toks: &[Tok]) -> Result<(i64, bool), String> {
    let mut acc = 0i64;
    let mut prev_right = 0u16;
    let mut nonzero_conn = false;
    for (i, t) in toks.iter().enumerate() {
        let (_, l, r, c) = rd
            .entry(t.lex_type, t.word_id)
            .ok_or_else(|| format!("token {i} names a non-existent entry"))?;
        let cc = rd.conn.get(prev_right, l);
        nonzero_conn |= cc != 0;
        acc += cc + i64::from(c);
        if i64::from(t.total_cost) != acc {
            return Err(format!(
                "token {i} ({:?}) total_cost {} != accumulated cost {acc} recomputed from the dictionary",
                t.surface, t.total_cost
            ));
        }
        prev_right = r;
    }
    let ce = rd.conn.get(prev_right, 0);
    nonzero_conn |= ce != 0;
    let total = acc + ce;
    if total != optimum {
        return Err(format!(
            "reported path costs {total} (incl. EOS connection) but the minimum over the candidate set is {optimum}"
        ));
    }
    Ok((total, nonzero_conn))
}

/// C03 black box: each reported token is a reference candidate at its position.
pub fn tokens_are_candidates(refl: &RefLattice, toks: &[Tok]) -> Result<(), String> {
    for (i, t) in toks.iter().enumerate() {
        let ok = refl.nodes.iter().any(|n| {
            n.start_word == t.range_char.0
                && n.cand.end == t.range_char.1
                && n.cand.lex_type == t.lex_type
                && n.cand.word_id == t.word_id
        });
        if !ok {
            return Err(format!(
                "token {i} {:?} ({},{}) at {:?} is not a reference candidate",
                t.surface, t.lex_type, t.word_id, t.range_char
            ));
        }
    }
    Ok(())
}

fn eos_decides(refl: &RefLattice, rd: &RefDict) -> bool {
    let ends: Vec<&crate::refmodel::RefNode> = refl
        .nodes
        .iter()
        .filter(|n| n.cand.end == refl.eos_from)
        .collect();
    if ends.len() < 2 {
        return false;
    }
    let m1 = ends.iter().map(|n| n.best).min().unwrap();
    let m2 = ends
        .iter()
        .map(|n| n.best + rd.conn.get(n.cand.right, 0))
        .min()
        .unwrap();
    !ends
        .iter()
        .any(|n| n.best == m1 && n.best + rd.conn.get(n.cand.right, 0) == m2)
}

impl Sub for LatticeCheck {
    type Case = TokCase;
    fn name(&self) -> &'static str {
        if self.resources {
            return match self.which {
                Which::Optimality => "optimality_resources",
                Which::Candidates => "candidates_resources",
            };
        }
        match (self.which, self.exclusive_space) {
            (Which::Optimality, false) => "optimality",
            (Which::Optimality, true) => "optimality_spaces",
            (Which::Candidates, false) => "candidates",
            (Which::Candidates, true) => "candidates_spaces",
        }
    }
    fn strategy(&self, _tier: Tier) -> BoxedStrategy<TokCase> {
        if self.resources {
            return resource_case();
        }
        let p = TokCaseParams {
            dict: DictParams {
                space: if self.exclusive_space {
                    SpaceMode::Exclusive
                } else {
                    SpaceMode::Free
                },
                conn: ConnChoice::Any,
                max_cats: 18,
                max_rows: if self.which == Which::Candidates { 20 } else { 30 },
            },
            n_sentences: 6,
            max_chunks: 8,
            max_chars: if self.which == Which::Candidates { 48 } else { 24 },
            with_user: true,
            with_mapping: self.which == Which::Optimality,
            space_only_if_exclusive: true,
        };
        tok_case(p)
    }
    fn rule(&self) -> String {
        match self.which {
            Which::Optimality => "DictSpec × options × sentences (ignore_space only on dictionaries meeting the C12 precondition); oracle = \
                reference Viterbi over the reference candidate set: running total_cost recomputed from reference costs, reported \
                every lattice node's stored prefix minimum and the EOS minimum == an independent recurrence over the dumped candidate nodes, \
                reported path total == that optimum (== the reference lattice optimum when candidates agree); \
                non-trivial = ≥2 complete segmentations exist and a connection cost on the reported path is non-zero; \
                distinct = hash(files, options, sentence)".into(),
            Which::Candidates => "DictSpec with char.def variety (≤18 categories, overlapping ranges, multi-category characters, all invoke/group/length) × \
                max_grouping_len ∈ {0,1,2,3,24,10^6} × sentences incl. runs and range-boundary code points; oracle = multiset equality of \
                lattice candidates per position with the literal C03 rule + membership of reported tokens; non-trivial = sentence has both \
                a lexicon and an unknown candidate, or hits a grouping bound edge, or length != run; distinct = hash(files, options, sentence)".into(),
        }
    }
    fn check(&self, case: &TokCase, ctx: &mut Ctx) -> Result<(), String> {
        self.check_case(case, ctx)?;
        ctx.sample(|| brief(case));
        Ok(())
    }
}

impl LatticeCheck {
    /// The oracle proper (without recording a sample: the scale sub-checks render their own compact one).
    pub fn check_case(&self, case: &TokCase, ctx: &mut Ctx) -> Result<(), String> {
        let files = case.spec.render();
        let user = case.user.as_deref();
        let rd = RefDict::new(&case.spec, user.unwrap_or(&[]));
        ctx.label(case.spec.conn.kind());
        ctx.label_if(user.is_some(), "user_lexicon");
        ctx.label_if(case.mapping.is_some(), "mapped");
        // old id of each new id (identity when unmapped)
        let inv = |list: Option<&Vec<u16>>, n: usize| -> Vec<u16> {
            let mut v: Vec<u16> = (0..n as u16).collect();
            if let Some(l) = list {
                for (i, &old) in l.iter().enumerate() {
                    v[i + 1] = old;
                }
            }
            v
        };
        let inv_l = inv(case.mapping.as_ref().map(|m| &m.0), rd.conn.num_left);
        let inv_r = inv(case.mapping.as_ref().map(|m| &m.1), rd.conn.num_right);
        for o in &case.opts {
            let dict = build_case_dict(&files, user, case.mapping.as_ref(), o.max_grouping_len % 2 == 1)?;
            let tokenizer = crate::refmodel::make_tokenizer_h(dict, o.ignore_space, o.max_grouping_len, o.history)?;
            let mut worker = tokenizer.new_worker();
            for s in &case.sentences {
                let res = guard(|| {
                    worker.reset_sentence(s);
                    worker.tokenize();
                    (tokens_of(&worker), lattice_dump(&worker))
                });
                let (toks, mut dump) = match res {
                    Ok(x) => x,
                    Err(p) => {
                        // Open known finding: the resource dictionary has categories without
                        // unk.def entries; a sentence containing such a character may be
                        // untokenizable. Signature: panic in the lattice code and such a character.
                        let rc = rd.chars();
                        let entryless = s.chars().any(|c| rd.unk_by_cat[rc.info(c).primary].is_empty());
                        if self.resources && entryless && p.contains("tokenizer/lattice.rs") {
                            ctx.count("known_finding_category_without_unk_entry_hits", 1);
                            // the worker's buffers are in an undefined state after a panic
                            worker = tokenizer.new_worker();
                            continue;
                        }
                        return Err(format!("tokenize({s:?}, {o:?}): {p}"));
                    }
                };
                ctx.eval();
                for n in &mut dump.nodes {
                    let (l, r) = (usize::from(n.left_id), usize::from(n.right_id));
                    if l >= inv_l.len() || r >= inv_r.len() {
                        return Err(format!("sentence {s:?}: lattice node {n:?} has a connection id outside the connector"));
                    }
                    n.left_id = inv_l[l];
                    n.right_id = inv_r[r];
                }
                let refl = rd.lattice(s, o.ignore_space, o.max_grouping_len);
                if s.is_empty() {
                    if !toks.is_empty() {
                        return Err("empty sentence produced tokens".into());
                    }
                    continue;
                }
                let ctxmsg = |e: String| format!("sentence {s:?} opts {o:?}: {e}");
                match self.which {
                    Which::Optimality => {
                        let opt = compare_minima(&rd, &dump).map_err(ctxmsg)?;
                        let (_, nonzero) = check_reported_path(&rd, opt, &toks).map_err(ctxmsg)?;
                        // Black-box complement: when the candidate sets agree (C03), the optimum
                        // must also equal the reference lattice's optimum.
                        if compare_candidates(&refl, &dump).is_ok() {
                            if opt != refl.eos_best {
                                return Err(ctxmsg(format!(
                                    "optimum {opt} over identical candidates differs from the reference optimum {}",
                                    refl.eos_best
                                )));
                            }
                            ctx.label("candidates_agree_with_reference");
                            // second, independent oracle for short sentences: enumerate every
                            // complete segmentation of the reference candidate graph
                            if refl.total_paths <= 3000 {
                                let bf = brute_force_min(&rd, &refl);
                                if bf != Some(refl.eos_best) {
                                    return Err(ctxmsg(format!(
                                        "harness self-check: brute-force minimum {bf:?} over all {} segmentations != reference Viterbi optimum {}",
                                        refl.total_paths, refl.eos_best
                                    )));
                                }
                                ctx.label("brute_force_cross_check");
                            }
                        } else {
                            ctx.count("candidate_mismatch_left_to_C03", 1);
                        }
                        let ed = eos_decides(&refl, &rd);
                        ctx.label_if(ed, "eos_decides");
                        ctx.label_if(refl.eos_npaths > 1, "tie");
                        ctx.label_if(refl.total_paths >= 2, "multi_path");
                        ctx.label_if(toks.iter().any(|t| t.word_cost < 0), "negative_word_cost_on_path");
                        ctx.label_if(o.ignore_space, "ignore_space");
                        if refl.total_paths >= 2 && nonzero {
                            ctx.nontrivial(&(&files, &case.user, o, s));
                        }
                    }
                    Which::Candidates => {
                        compare_candidates(&refl, &dump).map_err(ctxmsg)?;
                        tokens_are_candidates(&refl, &toks).map_err(ctxmsg)?;
                        let t = &refl.trace;
                        let has_unk = refl.nodes.iter().any(|n| n.cand.lex_type == 2);
                        ctx.label_if(t.lex_match > 0, "lex_match");
                        ctx.label_if(t.invoke_suppressed > 0, "invoke0_suppressed");
                        ctx.label_if(t.invoke_with_match > 0, "invoke1_with_match");
                        ctx.label_if(t.group_emitted > 0, "group_emitted");
                        ctx.label_if(t.group_omitted > 0, "group_omitted_by_bound");
                        ctx.label_if(t.bound_edge > 0, "grouping_bound_edge");
                        ctx.label_if(t.bound_edge > 0 && o.max_grouping_len == 24, "grouping_bound_edge_at_24");
                        ctx.label_if(t.length_prefix > 0, "length_prefixes");
                        ctx.label_if(t.length_ne_run > 0, "length_ne_run");
                        ctx.label_if(t.dup_skipped > 0, "dup_run_skipped");
                        ctx.label_if(t.fallback > 0, "fallback_single_char");
                        ctx.label_if(t.multi_unk_entries > 0, "multi_unk_entries");
                        ctx.label_if(t.multi_cat_char > 0, "multi_category_char");
                        ctx.label_if(o.ignore_space, "ignore_space");
                        ctx.label_if(s.chars().any(|c| c as u32 > 0xFFFF), "astral");
                        if (t.lex_match > 0 && has_unk) || t.bound_edge > 0 || t.length_ne_run > 0 {
                            ctx.nontrivial(&(&files, &case.user, o, s));
                        }
                    }
                }
            }
        }
        Ok(())
    }
}

pub fn run_resources(which: Which, opts: &Opts, rep: &mut Report) {
    use crate::engine::run_sub;
    if resource_spec().is_none() {
        rep.notes.push("the repository's test resources could not be interpreted by the strict reference parsers; resource sub-check skipped".into());
        return;
    }
    let r = LatticeCheck { which, exclusive_space: false, resources: true };
    run_sub(&r, opts, opts.tier.pick(4000, 60_000), rep);
}

pub fn run_c02(opts: &Opts) -> Report {
    use crate::engine::run_sub;
    let mut rep = Report::new("C02", "exploration");
    rep.assumptions = vec![
        "accumulated costs stay inside i32 (≤ 24 characters, |cost| ≤ 65534 per step)".into(),
        "the scale sub-check uses sentences with a single occurrence of the crowded character (two crowded positions in a row cost 2^32 connection evaluations)".into(),
        "ignore_space=true only on dictionaries meeting the C12 precondition (otherwise the skipped span has no specification)".into(),
        "ties are unspecified: only costs are compared, never which of several optimal paths was returned".into(),
        "candidate generation is C03's concern: optimality is judged over the implementation's own candidate nodes (lattice dump)".into(),
    ];
    let a = LatticeCheck { which: Which::Optimality, exclusive_space: false, resources: false };
    let b = LatticeCheck { which: Which::Optimality, exclusive_space: true, resources: false };
    crate::props::committed_replays(&a, opts, &mut rep);
    crate::props::committed_replays(&b, opts, &mut rep);
    run_sub(&a, opts, opts.tier.pick(15_000, 300_000), &mut rep);
    run_sub(&b, opts, opts.tier.pick(6000, 120_000), &mut rep);
    run_resources(Which::Optimality, opts, &mut rep);
    let sc = crate::props::scale::Scale { which: Which::Optimality };
    crate::props::committed_replays(&sc, opts, &mut rep);
    run_sub(&sc, opts, opts.tier.pick(48, 800), &mut rep);
    rep
}

pub fn run_c03(opts: &Opts) -> Report {
    use crate::engine::run_sub;
    let mut rep = Report::new("C03", "exploration");
    rep.assumptions = vec![
        "characters ≥ U+10000 are removed from sentences when a generated range line covers U+0000 (they would take its class: open known finding)".into(),
        "every category has ≥ 1 unk.def entry (open known finding of C01/C10 otherwise)".into(),
        "ignore_space=true only on dictionaries meeting the C12 precondition".into(),
        "'single character if nothing else was produced' counts lexicon matches as something (DESIGN 9)".into(),
    ];
    let a = LatticeCheck { which: Which::Candidates, exclusive_space: false, resources: false };
    let b = LatticeCheck { which: Which::Candidates, exclusive_space: true, resources: false };
    crate::props::committed_replays(&a, opts, &mut rep);
    crate::props::committed_replays(&b, opts, &mut rep);
    run_sub(&a, opts, opts.tier.pick(15_000, 300_000), &mut rep);
    run_sub(&b, opts, opts.tier.pick(6000, 120_000), &mut rep);
    run_resources(Which::Candidates, opts, &mut rep);
    let sc = crate::props::scale::Scale { which: Which::Candidates };
    crate::props::committed_replays(&sc, opts, &mut rep);
    run_sub(&sc, opts, opts.tier.pick(48, 800), &mut rep);
    rep
}

pub fn replay(id: &str, path: &std::path::Path) -> Option<i32> {
    let which = if id == "C02" { Which::Optimality } else { Which::Candidates };
    let id: &'static str = if id == "C02" { "C02" } else { "C03" };
    crate::props::try_strict(&LatticeCheck { which, exclusive_space: false, resources: false }, id, path)
        .or_else(|| crate::props::try_strict(&LatticeCheck { which, exclusive_space: true, resources: false }, id, path))
        .or_else(|| crate::props::try_strict(&LatticeCheck { which, exclusive_space: false, resources: true }, id, path))
        .or_else(|| crate::props::try_strict(&crate::props::scale::Scale { which }, id, path))
}
