//! C01 — Tokens partition the input text (validity predicate, black box).
use proptest::prelude::*;

use crate::engine::{guard, Ctx, Sub, Tier};
use crate::gen::dict::LexRow;
use crate::props::common::{brief, build_case_dict, new_ids, tok_case, TokCase, TokCaseParams};
use crate::refmodel::{tok_of, tokens_of, RefChars, RefDict, Tok};

pub struct Partition {
    pub long: bool,
    /// thorough only: sentences repeated up to ~20 000 characters
    pub stress: bool,
}

/// The C01 validity predicate on one tokenization result.
pub fn validate_tokens(
    rd: &RefDict,
    input: &str,
    toks: &[Tok],
    ignore_space: bool,
    left_new: Option<&[u16]>,
    right_new: Option<&[u16]>,
) -> Result<(), String> {
    let c2b: Vec<usize> = input
        .char_indices()
        .map(|(b, _)| b)
        .chain(std::iter::once(input.len()))
        .collect();
    let nchars = c2b.len() - 1;
    let chars: Vec<char> = input.chars().collect();
    let rc = RefChars {
        def: &rd.spec.chardef,
    };
    let space_bit = rc.space_idx().map(crate::refmodel::cat_bit);
    let gap_ok = |from: usize, to: usize| -> Result<(), String> {
        if from == to {
            return Ok(());
        }
        if !ignore_space {
            return Err(format!("uncovered gap {from}..{to} without ignore_space"));
        }
        let sb = space_bit.ok_or("gap but no SPACE category")?;
        if rc.info(chars[from]).cats & sb == 0 {
            return Err(format!(
                "gap {from}..{to} does not begin with a SPACE character ({:?})",
                chars[from]
            ));
        }
        Ok(())
    };
    if input.is_empty() && !toks.is_empty() {
        return Err("empty input produced tokens".into());
    }
    let mut prev_end = 0usize;
    let mut concat = String::new();
    for (i, t) in toks.iter().enumerate() {
        let (s, e) = t.range_char;
        if s >= e {
            return Err(format!("token {i} is empty: {s}..{e}"));
        }
        if e > nchars {
            return Err(format!("token {i} range_char {s}..{e} exceeds the input ({nchars} chars)"));
        }
        if s < prev_end {
            return Err(format!("token {i} starts at {s} before previous end {prev_end}"));
        }
        gap_ok(prev_end, s)?;
        if t.range_byte != (c2b[s], c2b[e]) {
            return Err(format!(
                "token {i} range_byte {:?} != byte offsets {:?} of range_char {s}..{e}",
                t.range_byte,
                (c2b[s], c2b[e])
            ));
        }
        if t.surface != input[c2b[s]..c2b[e]] {
            return Err(format!("token {i} surface {:?} != input slice", t.surface));
        }
        let Some((feat, l, r, cost)) = rd.entry(t.lex_type, t.word_id) else {
            return Err(format!(
                "token {i} names a non-existent entry ({}, {})",
                t.lex_type, t.word_id
            ));
        };
        let el = left_new.map_or(l, |m| m[usize::from(l)]);
        let er = right_new.map_or(r, |m| m[usize::from(r)]);
        if t.feature != feat || t.left_id != el || t.right_id != er || t.word_cost != cost {
            return Err(format!(
                "token {i} reports ({:?},{},{},{}) but entry ({},{}) is ({:?},{},{},{})",
                t.feature, t.left_id, t.right_id, t.word_cost, t.lex_type, t.word_id, feat, el, er, cost
            ));
        }
        // lexicon tokens must carry the entry's surface
        if t.lex_type != 2 {
            let rows: &[LexRow] = if t.lex_type == 0 { &rd.spec.lex } else { rd.user };
            if rows[t.word_id as usize].surface != t.surface {
                return Err(format!("token {i} surface differs from its lexicon entry's surface"));
            }
        }
        concat.push_str(&t.surface);
        prev_end = e;
    }
    gap_ok(prev_end, nchars)?;
    if !ignore_space && concat != input {
        return Err("surfaces do not concatenate to the input".into());
    }
    Ok(())
}

impl Sub for Partition {
    type Case = TokCase;
    fn name(&self) -> &'static str {
        if self.stress {
            "partition_stress"
        } else if self.long {
            "partition_long"
        } else {
            "partition"
        }
    }
    fn strategy(&self, _tier: Tier) -> BoxedStrategy<TokCase> {
        let mut p = TokCaseParams::default();
        if self.long {
            p.n_sentences = 2;
            p.max_chunks = 60;
            p.max_chars = 200;
        }
        tok_case(p)
    }
    fn rule(&self) -> String {
        "DictSpec (matrix/raw/dual, ± user lexicon, ± id mapping) × 2-3 option settings × sentences built from \
         lexicon surfaces, character runs, space runs, astral/U+0000/U+FFFF characters and range-boundary code points; \
         oracle = C01 validity predicate on every accessor; non-trivial = non-empty sentence with ≥2 tokens or a \
         multi-byte character; distinct = hash(dictionary files, options, sentence)"
            .into()
    }
    fn check(&self, case: &TokCase, ctx: &mut Ctx) -> Result<(), String> {
        let files = case.spec.render();
        let user = case.user.as_deref();
        let rd = RefDict::new(&case.spec, user.unwrap_or(&[]));
        let (ln, rn) = match &case.mapping {
            Some((l, r)) => (Some(new_ids(l)), Some(new_ids(r))),
            None => (None, None),
        };
        ctx.label(case.spec.conn.kind());
        ctx.label_if(user.is_some(), "user_lexicon");
        ctx.label_if(case.mapping.is_some(), "mapped");
        for o in &case.opts {
            let dict = build_case_dict(&files, user, case.mapping.as_ref(), false)?;
            let tokenizer = crate::refmodel::make_tokenizer_h(dict, o.ignore_space, o.max_grouping_len, o.history)?;
            let mut worker = tokenizer.new_worker();
            // stress: every sentence repeated up to 20 000 characters, and the first two also as
            // "s + 70 000 space characters + s" (more than 2^16 characters skipped or grouped at once)
            let mut stress_sentences: Vec<String> = vec![];
            if self.stress {
                let rc = rd.chars();
                let sp = rc.space_idx().map(crate::refmodel::cat_bit).unwrap_or(0);
                // only under ignore_space (the run is skipped: no cost accumulates, cf. the i32 bound of the domain)
                let space_char = if o.ignore_space { crate::gen::dict::SPACE_CHARS.iter().copied().find(|&c| rc.info(c).cats & sp != 0) } else { None };
                for (i, s) in case.sentences.iter().enumerate() {
                    if s.is_empty() {
                        stress_sentences.push(String::new());
                        continue;
                    }
                    let n = s.chars().count();
                    stress_sentences.push(s.repeat((20_000 / n).max(1)));
                    if let (true, Some(space_char)) = (i < 2, space_char) {
                        let pad: String = std::iter::repeat(space_char).take(70_000).collect();
                        stress_sentences.push(format!("{s}{pad}{s}"));
                        ctx.label("sentence_with_70000_space_characters");
                    }
                }
            }
            for s in if self.stress { &stress_sentences } else { &case.sentences } {
                let toks = guard(|| {
                    worker.reset_sentence(s);
                    worker.tokenize();
                    let a = tokens_of(&worker);
                    let b: Vec<Tok> = worker.token_iter().map(|t| tok_of(&t)).collect();
                    (a, b)
                })
                .map_err(|p| format!("tokenize({:?}…, {o:?}): {p}", s.chars().take(80).collect::<String>()))?;
                ctx.eval();
                if toks.0 != toks.1 {
                    return Err(format!("token(i) and token_iter() disagree on {s:?}"));
                }
                validate_tokens(&rd, s, &toks.0, o.ignore_space, ln.as_deref(), rn.as_deref())
                    .map_err(|e| format!("sentence {:?}… opts {o:?}: {e}", s.chars().take(80).collect::<String>()))?;
                let multibyte = s.len() != s.chars().count();
                ctx.label_if(o.ignore_space, "ignore_space");
                ctx.label_if(s.is_empty(), "empty_sentence");
                ctx.label_if(s.chars().any(|c| c as u32 > 0xFFFF), "astral");
                ctx.label_if(toks.0.iter().all(|t| t.lex_type == 2) && !toks.0.is_empty(), "unknown_only");
                ctx.label_if(toks.0.iter().any(|t| t.lex_type == 1), "user_token");
                if !s.is_empty() && (toks.0.len() >= 2 || multibyte) {
                    ctx.nontrivial(&(&files, o, s, &case.user, &case.mapping));
                }
            }
        }
        ctx.sample(|| brief(case));
        Ok(())
    }
}

pub fn run(opts: &crate::engine::Opts) -> crate::engine::Report {
    use crate::engine::{run_sub, Report};
    let mut rep = Report::new("C01", "exploration");
    rep.assumptions = vec![
        "accumulated costs stay inside i32 (|cost| <= 65534 per step, sentences <= 200 characters)".into(),
        "every generated category has >= 1 unk.def entry (a category without entries is an open known finding)".into(),
        "characters >= U+10000 are removed from sentences when a generated range line covers U+0000 (they would take its class: open known finding of C03)".into(),
        "termination is checked by a watchdog (exit 2), not proved".into(),
    ];
    let a = Partition { long: false, stress: false };
    let b = Partition { long: true, stress: false };
    crate::props::committed_replays(&a, opts, &mut rep);
    run_sub(&a, opts, opts.tier.pick(20_000, 240_000), &mut rep);
    run_sub(&b, opts, opts.tier.pick(2000, 24_000), &mut rep);
    // stress sentences of ~20 000 characters (accumulated cost stays inside i32: |cost| per step
    // ≤ 65 534 in the generated cost regimes); a small sample in the quick tier keeps the path alive
    let c = Partition { long: true, stress: true };
    run_sub(&c, opts, opts.tier.pick(64, 1200), &mut rep);
    rep
}

pub fn replay(path: &std::path::Path) -> Option<i32> {
    crate::props::try_strict(&Partition { long: false, stress: false }, "C01", path)
        .or_else(|| crate::props::try_strict(&Partition { long: true, stress: false }, "C01", path))
        .or_else(|| crate::props::try_strict(&Partition { long: true, stress: true }, "C01", path))
}
