//! C08 — A user lexicon adds candidates and can be replaced or cleared.
use std::collections::BTreeMap;
use std::path::Path;

use proptest::collection::vec;
use proptest::prelude::*;
use serde::{Deserialize, Serialize};
use vibrato::verif_hooks::lattice_dump;

use crate::engine::{guard, pick, run_sub, Ctx, Opts, Report, Sub, Tier};
use crate::gen::dict::{assemble_rows, raw_rows, render_lex_rows, CostRegime, DictParams, LexRow};
use crate::props::common::{build_case_dict, c12_precondition, tok_case, TokCase, TokCaseParams};
use crate::props::dictops::{apply, apply_all, diff_obs, observe, read_image, write_image, DOp};
use crate::refmodel::{tokens_of, RefDict};

// ---------------------------------------------------------------------------------------------
// (a) equivalence with an extended system lexicon

pub struct Extended;

impl Sub for Extended {
    type Case = TokCase;
    fn name(&self) -> &'static str {
        "extended"
    }
    fn strategy(&self, _tier: Tier) -> BoxedStrategy<TokCase> {
        let p = TokCaseParams {
            dict: DictParams {
                max_rows: 16,
                ..DictParams::default()
            },
            with_user: true,
            with_mapping: true,
            space_only_if_exclusive: false,
            ..TokCaseParams::default()
        };
        tok_case(p).prop_filter("needs a user lexicon", |c| c.user.is_some()).boxed()
    }
    fn rule(&self) -> String {
        "DictSpec + user rows (homographs of system words, longer/shorter overlaps, extreme costs), in half of the cases on an id-mapped dictionary (user lexicon loaded before one mapping, before two successive mappings, \
         or after the mapping; the same mappings applied to D'); D+U versus D' built from system rows ++ U rows: \
         per-position candidate multisets equal after erasing (lexicon type, word id), every node's prefix minimum and the EOS optimum equal, \
         tokens from U report LexType::User and U's feature/ids/cost, token sequences equal when the reference optimum is unique; \
         non-trivial = a user row is on the reported path or is a losing candidate; distinct = hash(files, user rows, options, sentence)".into()
    }
    fn check(&self, case: &TokCase, ctx: &mut Ctx) -> Result<(), String> {
        let files = case.spec.render();
        let user = case.user.as_deref().unwrap_or(&[]);
        // D' = system rows ++ user rows as one system lexicon
        let mut ext = case.spec.clone();
        ext.lex.extend(user.iter().cloned());
        let files_ext = ext.render();
        let nsys = case.spec.lex.len() as u32;
        let rd = RefDict::new(&case.spec, user);
        ctx.label(case.spec.conn.kind());
        type K = (usize, usize, usize, bool, u16, u16, i32, u32);
        // id-mapping history (the same mappings on both sides): none / [user, map] / [user, map, map] / [map, user]
        let hist = case.opts.first().map_or(0, |o| o.history) % 3;
        let (ops_u, ops_e, pl, pr): (Vec<DOp>, Vec<DOp>, Vec<u16>, Vec<u16>) = match &case.mapping {
            None => (vec![DOp::LoadUser(user.to_vec())], vec![], (0..rd.conn.num_left as u16).collect(), (0..rd.conn.num_right as u16).collect()),
            Some((l, r)) => {
                let m = DOp::Map(l.clone(), r.clone());
                let (ln, rn) = (crate::props::common::new_ids(l), crate::props::common::new_ids(r));
                let twice = |v: &Vec<u16>| -> Vec<u16> { v.iter().map(|&x| v[usize::from(x)]).collect() };
                match hist {
                    0 => (vec![DOp::LoadUser(user.to_vec()), m.clone()], vec![m], ln, rn),
                    1 => (vec![DOp::LoadUser(user.to_vec()), m.clone(), m.clone()], vec![m.clone(), m], twice(&ln), twice(&rn)),
                    _ => (vec![m.clone(), DOp::LoadUser(user.to_vec())], vec![m], ln, rn),
                }
            }
        };
        ctx.label(match (&case.mapping, hist) {
            (None, _) => "unmapped",
            (_, 0) => "user_then_map",
            (_, 1) => "user_then_map_map",
            _ => "map_then_user",
        });
        for o in &case.opts {
            let du = crate::refmodel::make_tokenizer_h(apply_all(build_case_dict(&files, None, None, false)?, &ops_u)?, o.ignore_space, o.max_grouping_len, o.history)?;
            let de = crate::refmodel::make_tokenizer_h(apply_all(build_case_dict(&files_ext, None, None, false)?, &ops_e)?, o.ignore_space, o.max_grouping_len, o.history)?;
            let mut wu = du.new_worker();
            let mut we = de.new_worker();
            for s in &case.sentences {
                let (tu, lu, te, le) = guard(|| {
                    wu.reset_sentence(s);
                    wu.tokenize();
                    we.reset_sentence(s);
                    we.tokenize();
                    (tokens_of(&wu), lattice_dump(&wu), tokens_of(&we), lattice_dump(&we))
                })
                .map_err(|p| format!("tokenize({s:?}): {p}"))?;
                ctx.eval();
                let key = |d: &vibrato::verif_hooks::LatticeDump| -> BTreeMap<K, u32> {
                    let mut m = BTreeMap::new();
                    for n in &d.nodes {
                        let unk = n.lex_type == 2;
                        *m.entry((
                            n.start_node,
                            n.start_word,
                            n.end_word,
                            unk,
                            n.left_id,
                            n.right_id,
                            n.min_cost,
                            if unk { n.word_id } else { 0 },
                        ))
                        .or_insert(0) += 1;
                    }
                    m
                };
                let (ku, ke) = (key(&lu), key(&le));
                if ku != ke {
                    let d = ku
                        .iter()
                        .find(|(k, v)| ke.get(*k) != Some(*v))
                        .map(|(k, v)| format!("{k:?} x{v} only with the user lexicon"))
                        .or_else(|| ke.iter().find(|(k, v)| ku.get(*k) != Some(*v)).map(|(k, v)| format!("{k:?} x{v} only with the extended system lexicon")))
                        .unwrap_or_default();
                    return Err(format!(
                        "sentence {s:?} opts {o:?}: candidates (start_node,start_word,end,is_unknown,left,right,prefix minimum,unk id) differ: {d}"
                    ));
                }
                if lu.eos != le.eos {
                    return Err(format!("sentence {s:?}: EOS (from, optimum) {:?} with user lexicon vs {:?} with extended system lexicon", lu.eos, le.eos));
                }
                // user tokens are reported as such, with the user row's data
                let mut user_on_path = false;
                for t in &tu {
                    if t.lex_type == 1 {
                        user_on_path = true;
                        let row = user.get(t.word_id as usize).ok_or("user token with an out-of-range word id")?;
                        if row.surface != t.surface || row.feature != t.feature || row.cost != t.word_cost || pl[usize::from(row.left)] != t.left_id || pr[usize::from(row.right)] != t.right_id {
                            return Err(format!("sentence {s:?}: user token {t:?} does not carry the data of user row {row:?}"));
                        }
                    }
                }
                // sequences must agree when the optimum is unique
                let seq_u: Vec<_> = tu.iter().map(|t| (t.range_char, t.feature.clone(), t.total_cost)).collect();
                let seq_e: Vec<_> = te.iter().map(|t| (t.range_char, t.feature.clone(), t.total_cost)).collect();
                if seq_u != seq_e {
                    let c12 = !o.ignore_space || c12_precondition(&case.spec, user);
                    if c12 && rd.lattice(s, o.ignore_space, o.max_grouping_len).eos_npaths == 1 {
                        return Err(format!("sentence {s:?} opts {o:?}: unique optimum but token sequences differ: {seq_u:?} vs {seq_e:?}"));
                    }
                    ctx.count("tie_ambiguous", 1);
                } else {
                    // same path: tokens of D' beyond the system rows correspond to user tokens of D+U
                    for (a, b) in tu.iter().zip(&te) {
                        let from_user = b.lex_type == 0 && b.word_id >= nsys;
                        if from_user != (a.lex_type == 1) {
                            return Err(format!("sentence {s:?}: token {a:?} lexicon type inconsistent with the row it comes from ({b:?})"));
                        }
                    }
                }
                let user_cand = lu.nodes.iter().any(|n| n.lex_type == 1);
                ctx.label_if(user_on_path, "user_on_path");
                ctx.label_if(user_cand && !user_on_path, "user_candidate_loses");
                ctx.label_if(tu.iter().any(|t| t.lex_type == 0), "system_on_path");
                if user_cand {
                    ctx.nontrivial(&(&files, user, o, s));
                }
            }
        }
        ctx.sample(|| serde_json::json!({"lex.csv": files.lex, "user.csv": render_lex_rows(user, 0), "sentences": case.sentences, "opts": case.opts}));
        Ok(())
    }
}

// ---------------------------------------------------------------------------------------------
// (b) replace / clear histories

#[derive(Clone, Debug, Serialize, Deserialize, PartialEq, Eq, Hash)]
pub enum UOp {
    Load1,
    Load2,
    Clear,
    WriteRead,
}

#[derive(Clone, Debug, Serialize, Deserialize, PartialEq, Eq, Hash)]
pub struct UserHistCase {
    /// base.user = U1; base.mapping = optional mapping applied before the history
    pub base: TokCase,
    pub u2: Vec<LexRow>,
    pub ops: Vec<UOp>,
}

pub struct Replace;

impl Sub for Replace {
    type Case = UserHistCase;
    fn name(&self) -> &'static str {
        "replace_clear"
    }
    fn max_shrink_iters(&self) -> u32 {
        600
    }
    fn strategy(&self, _tier: Tier) -> BoxedStrategy<UserHistCase> {
        let p = TokCaseParams {
            dict: DictParams {
                max_rows: 12,
                ..DictParams::default()
            },
            with_user: true,
            with_mapping: true,
            ..TokCaseParams::default()
        };
        (tok_case(p), raw_rows(6, false), vec(0u8..7, 1..=6))
            .prop_filter_map("needs U1", |(mut base, raw2, rops)| {
                base.user.as_ref()?;
                let nl = base.spec.conn.num_left();
                let nr = base.spec.conn.num_right();
                let mut u2 = assemble_rows(&raw2, nl, nr, CostRegime::Medium, "X");
                // U2 overlaps U1 and the system lexicon on purpose
                if let Some(r) = u2.first_mut() {
                    r.surface = base.user.as_ref().unwrap()[0].surface.clone();
                }
                let ops = rops
                    .iter()
                    .map(|k| match k {
                        0 | 1 => UOp::Load1,
                        2 | 3 => UOp::Load2,
                        4 | 5 => UOp::Clear,
                        _ => UOp::WriteRead,
                    })
                    .collect();
                // sentences should contain U2 surfaces too
                let extra: String = u2.iter().take(2).map(|r| r.surface.clone()).collect();
                base.sentences.push(extra);
                Some(UserHistCase { base, u2, ops })
            })
            .boxed()
    }
    fn rule(&self) -> String {
        "history of 1-6 operations over {load U1, load U2, clear, write/read} on an unmapped or mapped dictionary; model: the state is determined by \
         the last load/clear; oracle: observations (tokens on 7 sentences × options, all connection costs) and the written image equal those of the same base image \
         with only the last load applied (or none); non-trivial = a load is followed by a different load or a clear; distinct = hash(files, U1, U2, history)".into()
    }
    fn check(&self, case: &UserHistCase, ctx: &mut Ctx) -> Result<(), String> {
        let b = &case.base;
        let files = b.spec.render();
        let u1 = b.user.as_deref().unwrap_or(&[]);
        let base = build_case_dict(&files, None, b.mapping.as_ref(), false)?;
        let image = guard(|| write_image(&base)).map_err(|p| format!("write: {p}"))??;
        let to_dop = |o: &UOp| match o {
            UOp::Load1 => DOp::LoadUser(u1.to_vec()),
            UOp::Load2 => DOp::LoadUser(case.u2.clone()),
            UOp::Clear => DOp::ClearUser,
            UOp::WriteRead => DOp::WriteRead,
        };
        let ops: Vec<DOp> = case.ops.iter().map(to_dop).collect();
        let a = apply_all(read_image(&image)?, &ops)?;
        let last = case.ops.iter().rev().find(|o| !matches!(o, UOp::WriteRead));
        let direct: Vec<DOp> = match last {
            Some(UOp::Load1) | Some(UOp::Load2) => vec![to_dop(last.unwrap())],
            _ => vec![],
        };
        let d = apply_all(read_image(&image)?, &direct)?;
        let oa = observe(a, &b.sentences, &b.opts)?;
        let od = observe(d, &b.sentences, &b.opts)?;
        ctx.eval();
        if let Some(diff) = diff_obs(&oa, &od, &b.sentences, &b.opts, true) {
            return Err(format!(
                "history {:?} differs from applying only its last load/clear ({:?}): {diff}",
                case.ops, last
            ));
        }
        let loads: Vec<&UOp> = case.ops.iter().filter(|o| !matches!(o, UOp::WriteRead)).collect();
        let replaced = loads.windows(2).any(|w| w[0] != w[1] && *w[0] != UOp::Clear);
        ctx.label(b.spec.conn.kind());
        ctx.label_if(b.mapping.is_some(), "mapped");
        ctx.label_if(matches!(last, Some(UOp::Clear)), "ends_cleared");
        ctx.label_if(replaced, "replaced_or_cleared_after_load");
        if replaced {
            ctx.nontrivial(&(&files, u1, &case.u2, &case.ops, &b.mapping));
        }
        ctx.sample(|| serde_json::json!({"ops": format!("{:?}", case.ops), "U1": render_lex_rows(u1, 0), "U2": render_lex_rows(&case.u2, 0),
            "mapping": b.mapping, "connector": b.spec.conn.kind()}));
        Ok(())
    }
}

// ---------------------------------------------------------------------------------------------
// (c) invalid user lexicons

#[derive(Clone, Debug, Serialize, Deserialize, PartialEq, Eq, Hash)]
pub struct BadUserCase {
    pub base: TokCase,
    pub csv: String,
    pub kind: String,
}

pub struct Invalid;

impl Sub for Invalid {
    type Case = BadUserCase;
    fn name(&self) -> &'static str {
        "invalid_user"
    }
    fn strategy(&self, _tier: Tier) -> BoxedStrategy<BadUserCase> {
        let p = TokCaseParams {
            dict: DictParams {
                max_rows: 6,
                ..DictParams::default()
            },
            n_sentences: 2,
            with_user: true,
            with_mapping: true,
            ..TokCaseParams::default()
        };
        (tok_case(p), 0u8..9, any::<u16>(), any::<u16>())
            .prop_filter_map("needs user rows", |(base, kind, r, big)| {
                let rows = base.user.clone()?;
                let nl = base.spec.conn.num_left() as u32;
                let nr = base.spec.conn.num_right() as u32;
                let i = pick(r, rows.len());
                let mut lines: Vec<String> = rows
                    .iter()
                    .map(|r| format!("{},{},{},{},{}", crate::gen::csv::render_cell(&r.surface, crate::gen::csv::QuoteStyle::Needed), r.left, r.right, r.cost, r.feature))
                    .collect();
                let row = &rows[i];
                let surf = crate::gen::csv::render_cell(&row.surface, crate::gen::csv::QuoteStyle::Needed);
                let far = 1 + u32::from(big) % 60000;
                let (line, k) = match kind {
                    0 => (format!("{surf},{},{},{},{}", nl, row.right, row.cost, row.feature), "left_id_eq_num_left"),
                    1 => (format!("{surf},{},{},{},{}", row.left, nr, row.cost, row.feature), "right_id_eq_num_right"),
                    2 => (format!("{surf},{},{},{},{}", (nl + far).min(65535), row.right, row.cost, row.feature), "left_id_far"),
                    3 => (format!("{surf},{},{},{},{}", row.left, (nr + far).min(65535), row.cost, row.feature), "right_id_far"),
                    4 => (format!("{surf},{},{}", row.left, row.right), "too_few_columns"),
                    5 => (format!("{surf},x,{},{},{}", row.right, row.cost, row.feature), "non_numeric_left"),
                    6 => (format!("{surf},{},{},40000,{}", row.left, row.right, row.feature), "cost_overflows_i16"),
                    7 => (format!("{surf},{},-1,{},{}", row.left, row.cost, row.feature), "negative_id"),
                    _ => (format!("{surf},{},{},{},{}", row.left, 70000, row.cost, row.feature), "id_overflows_u16"),
                };
                lines[i] = line;
                Some(BadUserCase {
                    base,
                    csv: lines.join("\n") + "\n",
                    kind: k.to_string(),
                })
            })
            .boxed()
    }
    fn rule(&self) -> String {
        "a valid user CSV with one row corrupted (left/right id equal to or far beyond the connector size, too few columns, non-numeric field, cost or id overflowing \
         its type, negative id), loaded into an unmapped or mapped dictionary; oracle: reset_user_lexicon_from_reader returns Err without panicking; \
         every case is non-trivial; distinct = hash(csv, connector sizes, mapped?)".into()
    }
    fn check(&self, case: &BadUserCase, ctx: &mut Ctx) -> Result<(), String> {
        let b = &case.base;
        let files = b.spec.render();
        let d = build_case_dict(&files, None, b.mapping.as_ref(), false)?;
        ctx.eval();
        let r = guard(|| d.reset_user_lexicon_from_reader(Some(case.csv.as_bytes())).map(|_| ()).map_err(|e| e.to_string()));
        match r {
            Ok(Err(_)) => {}
            Ok(Ok(())) => {
                return Err(format!(
                    "invalid user lexicon ({}) accepted by a {}x{} connector: {:?}",
                    case.kind,
                    b.spec.conn.num_right(),
                    b.spec.conn.num_left(),
                    case.csv
                ))
            }
            Err(p) => return Err(format!("invalid user lexicon ({}) {:?}: {p}", case.kind, case.csv)),
        }
        ctx.label(&case.kind);
        ctx.label_if(b.mapping.is_some(), "mapped");
        ctx.nontrivial(&(&case.csv, b.spec.conn.num_left(), b.spec.conn.num_right(), b.mapping.is_some()));
        ctx.sample(|| serde_json::json!({"kind": case.kind, "csv": case.csv, "mapped": b.mapping.is_some(),
            "connector": format!("{}x{}", b.spec.conn.num_right(), b.spec.conn.num_left())}));
        let _ = apply;
        Ok(())
    }
}

pub fn run(opts: &Opts) -> Report {
    let mut rep = Report::new("C08", "exploration");
    rep.assumptions = vec![
        "candidate order differs between a user lexicon and an extended system lexicon, so token sequences are compared only under a unique optimum".into(),
        "both sides of the replace/clear comparison start from the same written image".into(),
    ];
    let a = Extended;
    let b = Replace;
    let c = Invalid;
    crate::props::committed_replays(&a, opts, &mut rep);
    crate::props::committed_replays(&b, opts, &mut rep);
    crate::props::committed_replays(&c, opts, &mut rep);
    run_sub(&a, opts, opts.tier.pick(10_000, 160_000), &mut rep);
    run_sub(&b, opts, opts.tier.pick(3000, 50_000), &mut rep);
    run_sub(&c, opts, opts.tier.pick(8000, 100_000), &mut rep);
    rep
}

pub fn replay(path: &Path) -> Option<i32> {
    crate::props::try_strict(&Extended, "C08", path)
        .or_else(|| crate::props::try_strict(&Replace, "C08", path))
        .or_else(|| crate::props::try_strict(&Invalid, "C08", path))
}
