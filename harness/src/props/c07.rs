//! C07 — Compact bigram connectors compute the defining feature-pair sum.
use std::collections::BTreeMap;
use std::path::Path;

use proptest::collection::vec;
use proptest::prelude::*;
use serde::{Deserialize, Serialize};
use vibrato::verif_hooks as hooks;

use crate::engine::{guard, pick, run_sub, Ctx, Opts, Report, Sub, Tier};
use crate::gen::bigram::{bigram_model, BigramModel, Regime};
use crate::gen::dict::{assemble_rows, assemble_sentence, chardef, raw_rows, raw_sentence, ConnFiles, ConnSpec, CostRegime, DictSpec, RawSentence, SpaceMode, UnkRow};
use crate::props::c05::{build_flavour, XResult};
use crate::props::dictops::all_costs;
use crate::refmodel::{tokenize_fresh, RefConn};

#[derive(Clone, Debug, Serialize, Deserialize, PartialEq, Eq, Hash)]
pub struct BigramCase {
    /// Dictionary whose connector is `ConnSpec::Bigram` (the `dual` flag is ignored: both are built).
    pub spec: DictSpec,
    pub sentences: Vec<String>,
    pub large: bool,
}

pub struct Connectors;

fn bigram_case() -> BoxedStrategy<BigramCase> {
    (
        prop_oneof![3 => Just(Regime::Small), 1 => Just(Regime::Tiny), 2 => Just(Regime::Large)],
    )
        .prop_flat_map(|(regime,)| {
            (
                bigram_model(regime, 7),
                chardef(SpaceMode::Free, 6),
                raw_rows(16, false),
                vec((any::<u16>(), any::<u16>(), any::<i16>()), 18),
                vec(raw_sentence(6), 5),
                Just(regime),
            )
        })
        .prop_map(|(model, chardef, raw, base_unk, raw_sents, regime)| {
            let conn = ConnSpec::Bigram { model, dual: false };
            let nl = conn.num_left();
            let nr = conn.num_right();
            let lex = assemble_rows(&raw, nl, nr, CostRegime::Medium, "S");
            let mut unk = vec![];
            for c in 0..chardef.cats.len() {
                let (l, r, cost) = base_unk[c];
                unk.push(UnkRow {
                    cat: c,
                    left: (usize::from(l) % nl) as u16,
                    right: (usize::from(r) % nr) as u16,
                    cost: cost % 300,
                    feature: format!("U{c}"),
                });
            }
            let spec = DictSpec {
                chardef,
                unk,
                lex,
                conn,
                csv_style: 0,
            };
            let sentences = raw_sents
                .iter()
                .map(|r: &RawSentence| assemble_sentence(r, &spec, &[], 16))
                .collect();
            BigramCase {
                spec,
                sentences,
                large: regime == Regime::Large,
            }
        })
        .boxed()
}

fn model_of(spec: &DictSpec) -> &BigramModel {
    match &spec.conn {
        ConnSpec::Bigram { model, .. } => model,
        _ => unreachable!(),
    }
}

fn build_with(spec: &DictSpec, dual: Option<bool>, matrix: Option<&str>) -> Result<vibrato::Dictionary, String> {
    let mut f = spec.render();
    match (dual, matrix) {
        (_, Some(m)) => f.conn = ConnFiles::Matrix(m.to_string()),
        (Some(d), None) => {
            if let ConnFiles::Bigram { dual, .. } = &mut f.conn {
                *dual = d;
            }
        }
        _ => {}
    }
    match guard(|| f.build()) {
        Ok(Ok(d)) => Ok(d),
        Ok(Err(e)) => Err(format!("builder rejected a valid bigram model: {e}")),
        Err(p) => Err(format!("building the dictionary: {p}")),
    }
}

impl Sub for Connectors {
    type Case = BigramCase;
    fn name(&self) -> &'static str {
        "connectors"
    }
    fn max_shrink_iters(&self) -> u32 {
        1500
    }
    fn strategy(&self, _tier: Tier) -> BoxedStrategy<BigramCase> {
        bigram_case()
    }
    fn rule(&self) -> String {
        "BigramModel: K ∈ 1..=20 template positions (1-7, 8, 9-16, >16), ragged rows, feature strings shared across positions, quoted cells, '*' cells, empty cells, \
         features never listed in bigram.cost, BOS/EOS lines ''/x and x/'', zero and negative costs, cost regimes tiny/small/large; oracle: for EVERY id pair raw cost == Σ_p table[(right feature_p, left feature_p)] \
         (naive reference), dual cost == the same whenever Σ_p|c_p| ≤ 32767, sizes agree; in the small regimes the same lexicon compiled with raw, dual and a matrix.def materialised from the reference sums \
         tokenizes identically; non-trivial = a feature string shared by ≥2 positions or ragged rows or K≠8, and an id pair with ≥2 non-zero contributing positions; distinct = hash(bigram files)".into()
    }
    fn check(&self, case: &BigramCase, ctx: &mut Ctx) -> Result<(), String> {
        let model = model_of(&case.spec);
        let rc = RefConn::from_bigram(model);
        let k = model.k();
        let raw = build_with(&case.spec, Some(false), None)?;
        let dual = build_with(&case.spec, Some(true), None)?;
        let (nl, nr, craw) = guard(|| all_costs(&raw)).map_err(|p| format!("raw connector cost: {p}"))?;
        let (nl2, nr2, cdual) = guard(|| all_costs(&dual)).map_err(|p| format!("dual connector cost: {p}"))?;
        if (nl, nr) != (rc.num_left, rc.num_right) || (nl2, nr2) != (nl, nr) {
            return Err(format!(
                "connector sizes: raw {nr}x{nl}, dual {nr2}x{nl2}, model {}x{}",
                rc.num_right, rc.num_left
            ));
        }
        let mut clamp_regime = 0;
        let mut multi_pos = false;
        for r in 0..nr {
            for l in 0..nl {
                let want = rc.cost[r][l];
                let got = i64::from(craw[r * nl + l]);
                ctx.eval();
                if got != want {
                    return Err(format!("raw connector: cost(right {r}, left {l}) = {got}, defining sum = {want} (K={k})"));
                }
                if rc.abs_sum[r][l] <= 32767 {
                    let gd = i64::from(cdual[r * nl + l]);
                    if gd != want {
                        return Err(format!("dual connector: cost(right {r}, left {l}) = {gd}, defining sum = {want} (K={k})"));
                    }
                } else {
                    clamp_regime += 1;
                }
                multi_pos |= rc.abs_sum[r][l] != 0 && rc.abs_sum[r][l] != want.abs();
            }
        }
        // tokenization equality (small regimes: the sums fit matrix.def's i16)
        let fits = rc.cost.iter().flatten().all(|&c| i64::from(i16::MIN) <= c && c <= i64::from(i16::MAX));
        if !case.large && fits {
            let md = rc.to_matrix_def();
            let mat = build_with(&case.spec, None, Some(&md))?;
            let tr = vibrato::Tokenizer::new(raw);
            let td = vibrato::Tokenizer::new(dual);
            let tm = vibrato::Tokenizer::new(mat);
            for s in &case.sentences {
                let (a, b, c) = guard(|| (tokenize_fresh(&tr, s), tokenize_fresh(&td, s), tokenize_fresh(&tm, s)))
                    .map_err(|p| format!("tokenize({s:?}): {p}"))?;
                ctx.eval();
                if a != b || a != c {
                    return Err(format!(
                        "sentence {s:?}: raw, dual and materialised-matrix dictionaries tokenize differently: {:?} / {:?} / {:?}",
                        crate::props::dictops::brief_toks(&a),
                        crate::props::dictops::brief_toks(&b),
                        crate::props::dictops::brief_toks(&c)
                    ));
                }
            }
            ctx.label("tokenization_compared");
        }
        let ragged = model.right_rows.iter().chain(&model.left_rows).any(|r| r.len() < k);
        let shared = {
            let mut seen: BTreeMap<&str, usize> = BTreeMap::new();
            let mut sh = false;
            for row in model.right_rows.iter().chain(&model.left_rows) {
                for (p, f) in row.iter().enumerate() {
                    if let Some(&q) = seen.get(f.as_str()) {
                        sh |= q != p;
                    }
                    seen.insert(f, p);
                }
            }
            sh
        };
        ctx.label(match k {
            0..=7 => "K_1_7",
            8 => "K_8",
            9..=16 => "K_9_16",
            _ => "K_gt16",
        });
        ctx.label_if(ragged, "ragged_rows");
        ctx.label_if(shared, "shared_feature_across_positions");
        ctx.label_if(model.costs.iter().any(|c| c.0.is_empty() || c.1.is_empty()), "bos_eos_lines");
        ctx.label_if(clamp_regime > 0, "has_clamp_regime_pairs");
        ctx.label_if(case.large, "large_costs");
        if (shared || ragged || k != 8) && multi_pos {
            ctx.nontrivial(&model);
        }
        ctx.sample(|| {
            let (r, l, c) = model.render();
            serde_json::json!({"K": k, "bigram.right": r, "bigram.left": l, "bigram.cost": c.lines().take(12).collect::<Vec<_>>()})
        });
        Ok(())
    }
}

// ---------------------------------------------------------------------------------------------
// Scorer: bounded-exhaustive lookups

#[derive(Clone, Debug, Serialize, Deserialize, PartialEq, Eq, Hash)]
pub struct ScorerCase {
    pub n1: u32,
    pub n2: u32,
    pub entries: Vec<(u32, u32, i32)>,
}

pub struct ScorerLookups;

impl Sub for ScorerLookups {
    type Case = ScorerCase;
    fn name(&self) -> &'static str {
        "scorer"
    }
    fn strategy(&self, _tier: Tier) -> BoxedStrategy<ScorerCase> {
        (1u32..=64, 1u32..=64, 0u8..5, vec((any::<u16>(), any::<u16>(), any::<i32>()), 0..=200))
            .prop_map(|(n1, n2, shape, raw)| {
                let mut m: BTreeMap<(u32, u32), i32> = BTreeMap::new();
                for (i, (a, b, c)) in raw.iter().enumerate() {
                    let (k1, k2) = match shape {
                        0 => (pick(*a, n1 as usize) as u32, pick(*b, n2 as usize) as u32), // sparse
                        1 => (0, pick(*b, n2 as usize) as u32),                             // single row
                        2 => (pick(*a, n1 as usize) as u32, 0),                             // single column
                        3 => (i as u32 % n1, (i as u32 / n1) % n2),                         // dense block
                        _ => (pick(*a, n1 as usize) as u32, (pick(*b, 4) as u32) % n2),    // many base^key2 collisions
                    };
                    m.insert((k1, k2), if i % 7 == 0 { 0 } else { *c % 100_000 });
                }
                ScorerCase {
                    n1,
                    n2,
                    entries: m.into_iter().map(|((a, b), c)| (a, b, c)).collect(),
                }
            })
            .boxed()
    }
    fn rule(&self) -> String {
        "key sets over key1 < n1 ≤ 64, key2 < n2 ≤ 64: sparse, single row, single column, dense block, many equal base^key2 collisions; oracle (bounded-exhaustive per case): for EVERY (k1,k2) in \
         [0,n1+2)×[0,n2+2) plus the invalid id 2^31-1, each looked up alone in lane i%8, the scorer returns the inserted value or 0; plus one multi-lane accumulate against the sum; \
         non-trivial = ≥2 key1 rows with ≥2 entries each; distinct = hash(entries)".into()
    }
    fn check(&self, case: &ScorerCase, ctx: &mut Ctx) -> Result<(), String> {
        let map: BTreeMap<(u32, u32), i32> = case.entries.iter().map(|&(a, b, c)| ((a, b), c)).collect();
        let inv = 0x7fff_ffffu32;
        let mut queries = vec![];
        for k1 in (0..case.n1 + 2).chain([inv]) {
            for k2 in (0..case.n2 + 2).chain([inv]) {
                queries.push((k1, k2));
            }
        }
        let got = guard(|| hooks::scorer::lookup_all(&case.entries, &queries))
            .map_err(|p| format!("scorer: {p}"))?
            .ok_or("scorer hook rejected keys")?;
        for (q, g) in queries.iter().zip(&got) {
            ctx.eval();
            let want = map.get(q).copied().unwrap_or(0);
            if *g != want {
                return Err(format!("scorer lookup {q:?} = {g}, inserted value = {want} ({} entries)", case.entries.len()));
            }
        }
        // multi-lane accumulate: the first 19 entries as parallel key vectors
        let k1: Vec<u32> = case.entries.iter().take(19).map(|e| e.0).collect();
        let k2: Vec<u32> = case.entries.iter().take(19).map(|e| e.1).collect();
        let want: i64 = case.entries.iter().take(19).map(|e| i64::from(e.2)).sum();
        if let Some(g) = guard(|| hooks::scorer::eval(&case.entries, &k1, &k2)).map_err(|p| format!("scorer accumulate: {p}"))? {
            ctx.eval();
            if i64::from(g) != want {
                return Err(format!("accumulate_cost over {} lanes = {g}, sum of inserted values = {want}", k1.len()));
            }
        }
        let mut per_row: BTreeMap<u32, u32> = BTreeMap::new();
        for e in &case.entries {
            *per_row.entry(e.0).or_insert(0) += 1;
        }
        if per_row.values().filter(|&&n| n >= 2).count() >= 2 {
            ctx.nontrivial(&case.entries);
        }
        ctx.sample(|| serde_json::json!({"n1": case.n1, "n2": case.n2, "entries": case.entries.iter().take(10).collect::<Vec<_>>(), "n_entries": case.entries.len()}));
        Ok(())
    }
}

// ---------------------------------------------------------------------------------------------
// Cross-build: the same generated models, costs computed in both builds

#[derive(Serialize, Deserialize)]
struct XModel {
    right: String,
    left: String,
    cost: String,
    raw: Vec<i32>,
    dual: Vec<i32>,
    /// per id pair: Σ_p|c_p| ≤ 32767 by the reference (the dual connector cannot have clamped)
    dual_exact: Vec<bool>,
    k: usize,
}

fn costs_of(right: &str, left: &str, cost: &str, dual: bool) -> Result<Vec<i32>, String> {
    let d = guard(|| {
        vibrato::SystemDictionaryBuilder::from_readers_with_bigram_info(
            "a,0,0,0,x\n".as_bytes(),
            right.as_bytes(),
            left.as_bytes(),
            cost.as_bytes(),
            "DEFAULT 0 1 0\n".as_bytes(),
            "DEFAULT,0,0,0,u\n".as_bytes(),
            dual,
        )
    })
    .map_err(|p| format!("build: {p}"))?
    .map_err(|e| format!("build: {e}"))?;
    guard(|| all_costs(&d).2).map_err(|p| format!("cost: {p}"))
}

pub fn xbuild_emit(dir: &Path, seed: u64, n: u32) -> Result<(), String> {
    use proptest::strategy::ValueTree;
    use proptest::test_runner::{Config, RngAlgorithm, TestRng, TestRunner};
    std::fs::create_dir_all(dir).map_err(|e| e.to_string())?;
    let mut sb = [0u8; 32];
    for (i, c) in sb.chunks_mut(8).enumerate() {
        c.copy_from_slice(&crate::engine::splitmix(seed ^ 0xC07 ^ (i as u64) << 32).to_le_bytes());
    }
    let mut runner = TestRunner::new_with_rng(Config::default(), TestRng::from_seed(RngAlgorithm::ChaCha, &sb));
    let strat = prop_oneof![bigram_model(Regime::Small, 7), bigram_model(Regime::Large, 7)];
    for i in 0..n * 5 {
        let m = strat.new_tree(&mut runner).map_err(|e| e.to_string())?.current();
        let (right, left, cost) = m.render();
        let rc = RefConn::from_bigram(&m);
        let x = XModel {
            dual_exact: rc.abs_sum.iter().flatten().map(|&a| a <= 32767).collect(),
            raw: costs_of(&right, &left, &cost, false)?,
            dual: costs_of(&right, &left, &cost, true)?,
            k: m.k(),
            right,
            left,
            cost,
        };
        std::fs::write(dir.join(format!("{i:05}.json")), serde_json::to_vec(&x).unwrap()).map_err(|e| e.to_string())?;
    }
    std::fs::write(dir.join("emitted_by"), build_flavour()).map_err(|e| e.to_string())?;
    Ok(())
}

pub fn xbuild_consume(dir: &Path) -> Result<XResult, String> {
    let mut res = XResult {
        emitted_by: std::fs::read_to_string(dir.join("emitted_by")).unwrap_or_default(),
        consumed_by: build_flavour().to_string(),
        ..Default::default()
    };
    let mut i = 0;
    loop {
        let p = dir.join(format!("{i:05}.json"));
        if !p.exists() {
            break;
        }
        let x: XModel = serde_json::from_slice(&std::fs::read(&p).map_err(|e| e.to_string())?).map_err(|e| e.to_string())?;
        res.images += 1;
        *res.connectors.entry(format!("K{}", x.k.min(17))).or_insert(0) += 1;
        let v = (|| -> Result<(), String> {
            let raw = costs_of(&x.right, &x.left, &x.cost, false)?;
            res.evaluations += raw.len() as u64;
            if raw != x.raw {
                let k = raw.iter().zip(&x.raw).position(|(a, b)| a != b).unwrap_or(0);
                return Err(format!("raw connector cost #{k} differs between builds: {} here vs {} in the emitting build (K={})", raw[k], x.raw[k], x.k));
            }
            // the dual connector's template split is not deterministic across processes, but its
            // costs are wherever nothing can have been clamped
            let dual = costs_of(&x.right, &x.left, &x.cost, true)?;
            for (k, ((d, ok), xd)) in dual.iter().zip(&x.dual_exact).zip(&x.dual).enumerate() {
                if *ok && d != xd {
                    return Err(format!("dual connector cost #{k} differs between builds: {d} here vs {xd} (K={})", x.k));
                }
            }
            Ok(())
        })();
        if let Err(e) = v {
            res.failures.push(format!("{}: {e}", p.display()));
        }
        i += 1;
    }
    Ok(res)
}

pub fn run(opts: &Opts) -> Report {
    let mut rep = Report::new("C07", "exploration");
    rep.assumptions = vec![
        "a feature literally named '*' never appears as a name in bigram.cost (a dropped feature and a real '*' feature would be indistinguishable)".into(),
        "duplicate (right, left) lines in bigram.cost are not generated (which one counts is unspecified)".into(),
        "dual == defining sum is asserted only where Σ_p|c_p| ≤ 32767 (the pre-summed part cannot have been clamped)".into(),
    ];
    let a = Connectors;
    let s = ScorerLookups;
    crate::props::committed_replays(&a, opts, &mut rep);
    crate::props::committed_replays(&s, opts, &mut rep);
    run_sub(&a, opts, opts.tier.pick(10_000, 160_000), &mut rep);
    run_sub(&s, opts, opts.tier.pick(6000, 100_000), &mut rep);
    crate::props::c05::absorb_xresults(&mut rep, opts, "C07");
    rep
}

pub fn replay(path: &Path) -> Option<i32> {
    crate::props::try_strict(&Connectors, "C07", path).or_else(|| crate::props::try_strict(&ScorerLookups, "C07", path))
}
