//! C07 — Compact bigram connectors compute the defining feature-pair sum.
use std::collections::BTreeMap;
use std::path::Path;

use proptest::collection::vec;
use proptest::prelude::*;
use serde::{Deserialize, Serialize};
use vibrato::verif_hooks as hooks;

use crate::engine::{guard, pick, run_sub, Ctx, Opts, Report, Sub, Tier};
use crate::gen::bigram::{bigram_model, BigramModel, Regime};
use crate::gen::dict::{assemble_rows, assemble_sentence, chardef, raw_rows, raw_sentence, ConnFiles, ConnSpec, CostRegime, DictSpec, RawSentence, SpaceMode, UnkRow};
use crate::props::c05::{build_flavour, XResult};
use crate::props::dictops::all_costs;
use crate::refmodel::{tokenize_fresh, RefConn};

#[derive(Clone, Debug, Serialize, Deserialize, PartialEq, Eq, Hash)]
pub struct BigramCase {
    /// Dictionary whose connector is `ConnSpec::Bigram` (the `dual` flag is ignored: both are built).
    pub spec: DictSpec,
    pub sentences: Vec<String>,
    pub large: bool,
}

pub struct Connectors;

fn bigram_case() -> BoxedStrategy<BigramCase> {
    (
        prop_oneof![3 => Just(Regime::Small), 1 => Just(Regime::Tiny), 2 => Just(Regime::Large), 1 => Just(Regime::Boundary)],
    )
        .prop_flat_map(|(regime,)| {
            (
                bigram_model(regime, 7),
                chardef(SpaceMode::Free, 6),
                raw_rows(16, false),
                vec((any::<u16>(), any::<u16>(), any::<i16>()), 18),
                vec(raw_sentence(6), 5),
                Just(regime),
            )
        })
        .prop_map(|(model, chardef, raw, base_unk, raw_sents, regime)| {
            let conn = ConnSpec::Bigram { model, dual: false };
            let nl = conn.num_left();
            let nr = conn.num_right();
            let lex = assemble_rows(&raw, nl, nr, CostRegime::Medium, "S");
            let mut unk = vec![];
            for c in 0..chardef.cats.len() {
                let (l, r, cost) = base_unk[c % base_unk.len()];
                unk.push(UnkRow {
                    cat: c,
                    left: (usize::from(l) % nl) as u16,
                    right: (usize::from(r) % nr) as u16,
                    cost: cost % 300,
                    feature: format!("U{c}"),
                });
            }
            let spec = DictSpec {
                chardef,
                unk,
                lex,
                conn,
                csv_style: 0,
            };
            let sentences = raw_sents
                .iter()
                .map(|r: &RawSentence| assemble_sentence(r, &spec, &[], 16))
                .collect();
            BigramCase {
                spec,
                sentences,
                large: regime == Regime::Large,
                // (the boundary regime is compared by tokenization only when every pair is exact, see `fits`)
            }
        })
        .boxed()
}

fn model_of(spec: &DictSpec) -> &BigramModel {
    match &spec.conn {
        ConnSpec::Bigram { model, .. } => model,
        _ => unreachable!(),
    }
}

fn build_with(spec: &DictSpec, dual: Option<bool>, matrix: Option<&str>) -> Result<vibrato::Dictionary, String> {
    let mut f = spec.render();
    match (dual, matrix) {
        (_, Some(m)) => f.conn = ConnFiles::Matrix(m.to_string()),
        (Some(d), None) => {
            if let ConnFiles::Bigram { dual, .. } = &mut f.conn {
                *dual = d;
            }
        }
        _ => {}
    }
    match guard(|| f.build()) {
        Ok(Ok(d)) => Ok(d),
        Ok(Err(e)) => Err(format!("builder rejected a valid bigram model: {e}")),
        Err(p) => Err(format!("building the dictionary: {p}")),
    }
}

impl Sub for Connectors {
    type Case = BigramCase;
    fn name(&self) -> &'static str {
        "connectors"
    }
    fn max_shrink_iters(&self) -> u32 {
        1500
    }
    fn strategy(&self, _tier: Tier) -> BoxedStrategy<BigramCase> {
        bigram_case()
    }
    fn rule(&self) -> String {
        "BigramModel: K ∈ 1..=20 template positions (1-7, 8, 9-16, >16), ragged rows, feature strings shared across positions, quoted cells, '*' cells, empty cells, \
         features never listed in bigram.cost, BOS/EOS lines ''/x and x/'', zero and negative costs, cost regimes tiny/small/large; oracle: for EVERY id pair raw cost == Σ_p table[(right feature_p, left feature_p)] \
         (naive reference), dual cost == the same whenever every partial sum fits i16 (Σ negative contributions ≥ −32768 and Σ positive ones ≤ 32767), sizes agree; a boundary regime draws costs from {±32767, −32768, ±16384, ±1, …}; in the small regimes the same lexicon compiled with raw, dual and a matrix.def materialised from the reference sums \
         tokenizes identically; non-trivial = a feature string shared by ≥2 positions or ragged rows or K≠8, and an id pair with ≥2 non-zero contributing positions; distinct = hash(bigram files)".into()
    }
    fn check(&self, case: &BigramCase, ctx: &mut Ctx) -> Result<(), String> {
        let model = model_of(&case.spec);
        let rc = RefConn::from_bigram(model);
        let k = model.k();
        let raw = build_with(&case.spec, Some(false), None)?;
        let dual = build_with(&case.spec, Some(true), None)?;
        let (nl, nr, craw) = guard(|| all_costs(&raw)).map_err(|p| format!("raw connector cost: {p}"))?;
        let (nl2, nr2, cdual) = guard(|| all_costs(&dual)).map_err(|p| format!("dual connector cost: {p}"))?;
        if (nl, nr) != (rc.num_left, rc.num_right) || (nl2, nr2) != (nl, nr) {
            return Err(format!(
                "connector sizes: raw {nr}x{nl}, dual {nr2}x{nl2}, model {}x{}",
                rc.num_right, rc.num_left
            ));
        }
        let mut clamp_regime = 0;
        let mut multi_pos = false;
        for r in 0..nr {
            for l in 0..nl {
                let want = rc.cost[r][l];
                let got = i64::from(craw[r * nl + l]);
                ctx.eval();
                if got != want {
                    return Err(format!("raw connector: cost(right {r}, left {l}) = {got}, defining sum = {want} (K={k})"));
                }
                if rc.fits16[r][l] {
                    let gd = i64::from(cdual[r * nl + l]);
                    if gd != want {
                        return Err(format!("dual connector: cost(right {r}, left {l}) = {gd}, defining sum = {want} (K={k})"));
                    }
                } else {
                    clamp_regime += 1;
                }
                multi_pos |= rc.abs_sum[r][l] != 0 && rc.abs_sum[r][l] != want.abs();
            }
        }
        // tokenization equality (small regimes: the sums fit matrix.def's i16)
        let fits = rc.cost.iter().flatten().all(|&c| i64::from(i16::MIN) <= c && c <= i64::from(i16::MAX)) && rc.fits16.iter().flatten().all(|&b| b);
        if !case.large && fits {
            let md = rc.to_matrix_def();
            let mat = build_with(&case.spec, None, Some(&md))?;
            let tr = vibrato::Tokenizer::new(raw);
            let td = vibrato::Tokenizer::new(dual);
            let tm = vibrato::Tokenizer::new(mat);
            for s in &case.sentences {
                let (a, b, c) = guard(|| (tokenize_fresh(&tr, s), tokenize_fresh(&td, s), tokenize_fresh(&tm, s)))
                    .map_err(|p| format!("tokenize({s:?}): {p}"))?;
                ctx.eval();
                if a != b || a != c {
                    return Err(format!(
                        "sentence {s:?}: raw, dual and materialised-matrix dictionaries tokenize differently: {:?} / {:?} / {:?}",
                        crate::props::dictops::brief_toks(&a),
                        crate::props::dictops::brief_toks(&b),
                        crate::props::dictops::brief_toks(&c)
                    ));
                }
            }
            ctx.label("tokenization_compared");
        }
        let ragged = model.right_rows.iter().chain(&model.left_rows).any(|r| r.len() < k);
        let shared = {
            let mut seen: BTreeMap<&str, usize> = BTreeMap::new();
            let mut sh = false;
            for row in model.right_rows.iter().chain(&model.left_rows) {
                for (p, f) in row.iter().enumerate() {
                    if let Some(&q) = seen.get(f.as_str()) {
                        sh |= q != p;
                    }
                    seen.insert(f, p);
                }
            }
            sh
        };
        ctx.label(match k {
            0..=7 => "K_1_7",
            8 => "K_8",
            9..=16 => "K_9_16",
            _ => "K_gt16",
        });
        ctx.label_if(ragged, "ragged_rows");
        ctx.label_if(shared, "shared_feature_across_positions");
        ctx.label_if(model.costs.iter().any(|c| c.0.is_empty() || c.1.is_empty()), "bos_eos_lines");
        ctx.label_if(clamp_regime > 0, "has_clamp_regime_pairs");
        ctx.label_if(case.large, "large_costs");
        if (shared || ragged || k != 8) && multi_pos {
            ctx.nontrivial(&model);
        }
        ctx.sample(|| {
            let (r, l, c) = model.render();
            serde_json::json!({"K": k, "bigram.right": r, "bigram.left": l, "bigram.cost": c.lines().take(12).collect::<Vec<_>>()})
        });
        Ok(())
    }
}

// ---------------------------------------------------------------------------------------------
// Scorer: bounded-exhaustive lookups

#[derive(Clone, Debug, Serialize, Deserialize, PartialEq, Eq, Hash)]
pub struct ScorerCase {
    pub n1: u32,
    pub n2: u32,
    pub entries: Vec<(u32, u32, i32)>,
}

pub struct ScorerLookups;

impl Sub for ScorerLookups {
    type Case = ScorerCase;
    fn name(&self) -> &'static str {
        "scorer"
    }
    fn strategy(&self, _tier: Tier) -> BoxedStrategy<ScorerCase> {
        (1u32..=64, 1u32..=64, 0u8..5, vec((any::<u16>(), any::<u16>(), any::<i32>()), 0..=200))
            .prop_map(|(n1, n2, shape, raw)| {
                let mut m: BTreeMap<(u32, u32), i32> = BTreeMap::new();
                for (i, (a, b, c)) in raw.iter().enumerate() {
                    let (k1, k2) = match shape {
                        0 => (pick(*a, n1 as usize) as u32, pick(*b, n2 as usize) as u32), // sparse
                        1 => (0, pick(*b, n2 as usize) as u32),                             // single row
                        2 => (pick(*a, n1 as usize) as u32, 0),                             // single column
                        3 => (i as u32 % n1, (i as u32 / n1) % n2),                         // dense block
                        _ => (pick(*a, n1 as usize) as u32, (pick(*b, 4) as u32) % n2),    // many base^key2 collisions
                    };
                    m.insert((k1, k2), if i % 7 == 0 { 0 } else { *c % 100_000 });
                }
                ScorerCase {
                    n1,
                    n2,
                    entries: m.into_iter().map(|((a, b), c)| (a, b, c)).collect(),
                }
            })
            .boxed()
    }
    fn rule(&self) -> String {
        "key sets over key1 < n1 ≤ 64, key2 < n2 ≤ 64: sparse, single row, single column, dense block, many equal base^key2 collisions; oracle (bounded-exhaustive per case): for EVERY (k1,k2) in \
         [0,n1+2)×[0,n2+2) plus the invalid id 2^31-1, each looked up alone in lane i%8, the scorer returns the inserted value or 0; plus one multi-lane accumulate against the sum; \
         non-trivial = ≥2 key1 rows with ≥2 entries each; distinct = hash(entries)".into()
    }
    fn check(&self, case: &ScorerCase, ctx: &mut Ctx) -> Result<(), String> {
        let map: BTreeMap<(u32, u32), i32> = case.entries.iter().map(|&(a, b, c)| ((a, b), c)).collect();
        let inv = 0x7fff_ffffu32;
        let mut queries = vec![];
        for k1 in (0..case.n1 + 2).chain([inv]) {
            for k2 in (0..case.n2 + 2).chain([inv]) {
                queries.push((k1, k2));
            }
        }
        let got = guard(|| hooks::scorer::lookup_all(&case.entries, &queries))
            .map_err(|p| format!("scorer: {p}"))?
            .ok_or("scorer hook rejected keys")?;
        for (q, g) in queries.iter().zip(&got) {
            ctx.eval();
            let want = map.get(q).copied().unwrap_or(0);
            if *g != want {
                return Err(format!("scorer lookup {q:?} = {g}, inserted value = {want} ({} entries)", case.entries.len()));
            }
        }
        // multi-lane accumulate: the first 19 entries as parallel key vectors
        let k1: Vec<u32> = case.entries.iter().take(19).map(|e| e.0).collect();
        let k2: Vec<u32> = case.entries.iter().take(19).map(|e| e.1).collect();
        let want: i64 = case.entries.iter().take(19).map(|e| i64::from(e.2)).sum();
        if let Some(g) = guard(|| hooks::scorer::eval(&case.entries, &k1, &k2)).map_err(|p| format!("scorer accumulate: {p}"))? {
            ctx.eval();
            if i64::from(g) != want {
                return Err(format!("accumulate_cost over {} lanes = {g}, sum of inserted values = {want}", k1.len()));
            }
        }
        let mut per_row: BTreeMap<u32, u32> = BTreeMap::new();
        for e in &case.entries {
            *per_row.entry(e.0).or_insert(0) += 1;
        }
        if per_row.values().filter(|&&n| n >= 2).count() >= 2 {
            ctx.nontrivial(&case.entries);
        }
        ctx.sample(|| serde_json::json!({"n1": case.n1, "n2": case.n2, "entries": case.entries.iter().take(10).collect::<Vec<_>>(), "n_entries": case.entries.len()}));
        Ok(())
    }
}

// ---------------------------------------------------------------------------------------------
// Wide regimes: many keys, large key values, many ids, large vocabularies (compact cases)

#[derive(Clone, Debug, Serialize, Deserialize, PartialEq, Eq, Hash)]
pub struct WideScorerCase {
    /// key ranges (exclusive); values cross 2^8, 2^16 and approach 2^31
    pub n1: u32,
    pub n2: u32,
    pub n_entries: u32,
    /// 0 = uniform, 1 = few rows with many columns, 2 = keys clustered just below the range end, 3 = one huge row
    pub shape: u8,
    pub salt: u64,
}

fn lcg(state: &mut u64) -> u64 {
    *state = state.wrapping_mul(6364136223846793005).wrapping_add(1442695040888963407);
    *state >> 33
}

impl WideScorerCase {
    pub fn entries(&self) -> Vec<(u32, u32, i32)> {
        let mut st = self.salt | 1;
        let mut m: BTreeMap<(u32, u32), i32> = BTreeMap::new();
        for i in 0..self.n_entries {
            let (a, b) = (lcg(&mut st), lcg(&mut st));
            let (k1, k2) = match self.shape {
                0 => ((a % u64::from(self.n1)) as u32, (b % u64::from(self.n2)) as u32),
                1 => ((a % 5) as u32 * (self.n1 / 5).max(1) % self.n1, (b % u64::from(self.n2)) as u32),
                2 => (self.n1 - 1 - (a % u64::from(self.n1.min(40))) as u32, self.n2 - 1 - (b % u64::from(self.n2.min(40))) as u32),
                _ => (self.n1 / 2, i % self.n2),
            };
            let c = (lcg(&mut st) % 200_001) as i32 - 100_000;
            m.insert((k1, k2), if i % 11 == 0 { 0 } else { c });
        }
        m.into_iter().map(|((a, b), c)| (a, b, c)).collect()
    }
}

pub struct WideScorer;

impl Sub for WideScorer {
    type Case = WideScorerCase;
    fn name(&self) -> &'static str {
        "scorer_wide"
    }
    fn max_shrink_iters(&self) -> u32 {
        200
    }
    fn strategy(&self, _tier: Tier) -> BoxedStrategy<WideScorerCase> {
        let range = || prop_oneof![3 => 200u32..=70_000, 2 => 250u32..=260, 2 => 65_530u32..=65_540, 1 => 1u32..=64];
        (range(), range(), prop_oneof![3 => 1u32..=600, 2 => 600u32..=6000, 1 => 6000u32..=40_000], 0u8..4, any::<u64>())
            .prop_map(|(n1, n2, n_entries, shape, salt)| WideScorerCase { n1, n2, n_entries, shape, salt })
            .boxed()
    }
    fn rule(&self) -> String {
        "key ranges n1, n2 ∈ 200..70000 ∪ 250..260 ∪ 65530..65540 ∪ 1..64 (feature ids are dense, the arrays grow with the largest key), 1..40000 entries placed uniformly / in five rows / clustered at the top of the range / in one huge row \
         (deterministic expansion of a compact case); oracle: every inserted pair looked up alone returns its value, 2000 derived non-inserted pairs (neighbours of inserted ones, swapped keys, random) and the invalid id return 0, \
         and three multi-lane accumulations (8, 19 and 64 lanes) equal the sums; non-trivial = ≥ 256 entries or a key ≥ 65536; distinct = hash(case)".into()
    }
    fn check(&self, case: &WideScorerCase, ctx: &mut Ctx) -> Result<(), String> {
        let entries = case.entries();
        let map: BTreeMap<(u32, u32), i32> = entries.iter().map(|&(a, b, c)| ((a, b), c)).collect();
        let inv = 0x7fff_ffffu32;
        let mut queries: Vec<(u32, u32)> = entries.iter().map(|e| (e.0, e.1)).collect();
        let mut st = case.salt ^ 0x9e37_79b9_7f4a_7c15;
        for i in 0..2000usize {
            let e = entries[(lcg(&mut st) as usize) % entries.len()];
            let q = match i % 6 {
                0 => (e.0, e.1.wrapping_add(1) & 0x7fff_fffe),
                1 => (e.0.wrapping_add(1) & 0x7fff_fffe, e.1),
                2 => (e.1, e.0),
                3 => ((lcg(&mut st) % u64::from(case.n1)) as u32, (lcg(&mut st) % u64::from(case.n2)) as u32),
                4 => (e.0, inv),
                _ => (inv, e.1),
            };
            queries.push(q);
        }
        let got = guard(|| hooks::scorer::lookup_all(&entries, &queries)).map_err(|p| format!("scorer: {p}"))?.ok_or("scorer hook rejected keys")?;
        for (q, g) in queries.iter().zip(&got) {
            ctx.eval();
            let want = map.get(q).copied().unwrap_or(0);
            if *g != want {
                return Err(format!("scorer lookup {q:?} = {g}, inserted value = {want} ({} entries, n1={}, n2={})", entries.len(), case.n1, case.n2));
            }
        }
        for lanes in [8usize, 19, 64] {
            let k1: Vec<u32> = entries.iter().rev().take(lanes).map(|e| e.0).collect();
            let k2: Vec<u32> = entries.iter().rev().take(lanes).map(|e| e.1).collect();
            let want: i64 = entries.iter().rev().take(lanes).map(|e| i64::from(e.2)).sum();
            if let Some(g) = guard(|| hooks::scorer::eval(&entries, &k1, &k2)).map_err(|p| format!("scorer accumulate: {p}"))? {
                ctx.eval();
                if i64::from(g) != want {
                    return Err(format!("accumulate_cost over {} lanes = {g}, sum of inserted values = {want}", k1.len()));
                }
            }
        }
        ctx.label_if(entries.len() >= 256, "ge_256_entries");
        ctx.label_if(entries.len() >= 5000, "ge_5000_entries");
        ctx.label_if(entries.iter().any(|e| e.0 >= 65_536 || e.1 >= 65_536), "key_ge_65536");
        ctx.label(match case.shape {
            0 => "uniform",
            1 => "five_rows",
            2 => "top_of_range",
            _ => "one_huge_row",
        });
        if entries.len() >= 256 || entries.iter().any(|e| e.0 >= 65_536 || e.1 >= 65_536) {
            ctx.nontrivial(case);
        }
        ctx.sample(|| serde_json::json!({"case": case, "first_entries": entries.iter().take(6).collect::<Vec<_>>(), "n_entries": entries.len()}));
        Ok(())
    }
}

#[derive(Clone, Debug, Serialize, Deserialize, PartialEq, Eq, Hash)]
pub struct WideModelCase {
    pub k: u8,
    pub n_right: u16,
    pub n_left: u16,
    /// distinct feature strings per template position and side
    pub vocab: u16,
    pub n_costs: u32,
    /// true: cost lines are drawn from features that do occur on the ids (many hits); false: from the whole vocabulary
    pub hit_biased: bool,
    pub small_costs: bool,
    pub salt: u64,
}

impl WideModelCase {
    pub fn model(&self) -> BigramModel {
        let mut st = self.salt | 1;
        let k = usize::from(self.k);
        let v = u64::from(self.vocab.max(1));
        let feat = |side: char, p: usize, x: u64| -> String {
            match x % 23 {
                0 => "*".to_string(),
                // some strings are shared between positions and sides on purpose
                1 => format!("sh{}", x % 7),
                _ => format!("{side}{p}:{}", x % v),
            }
        };
        let mut rows = |side: char, n: u16, st: &mut u64| -> Vec<Vec<String>> {
            (0..n)
                .map(|_| {
                    let len = if lcg(st) % 6 == 0 { 1 + (lcg(st) as usize) % k } else { k };
                    (0..len).map(|p| feat(side, p, lcg(st))).collect()
                })
                .collect()
        };
        let right_rows = rows('r', self.n_right, &mut st);
        let left_rows = rows('l', self.n_left, &mut st);
        let mut costs = vec![];
        let mut seen = std::collections::HashSet::new();
        for i in 0..self.n_costs {
            let p = (lcg(&mut st) as usize) % k;
            let pickf = |rows: &Vec<Vec<String>>, side: char, st: &mut u64| -> String {
                if i % 37 == 0 {
                    return String::new(); // BOS/EOS side
                }
                if self.hit_biased {
                    let row = &rows[(lcg(st) as usize) % rows.len()];
                    row.get(p).cloned().unwrap_or_else(|| feat(side, p, lcg(st)))
                } else {
                    feat(side, p, lcg(st))
                }
            };
            let r = pickf(&right_rows, 'r', &mut st);
            let l = pickf(&left_rows, 'l', &mut st);
            if r == "*" || l == "*" {
                continue;
            }
            let c = if self.small_costs { (lcg(&mut st) % 2001) as i32 - 1000 } else { (lcg(&mut st) % 200_001) as i32 - 100_000 };
            if seen.insert((r.clone(), l.clone())) {
                costs.push((r, l, c));
            }
        }
        BigramModel { right_rows, left_rows, costs }
    }
}

pub struct WideConnectors;

impl Sub for WideConnectors {
    type Case = WideModelCase;
    fn name(&self) -> &'static str {
        "connectors_wide"
    }
    fn max_shrink_iters(&self) -> u32 {
        120
    }
    fn strategy(&self, _tier: Tier) -> BoxedStrategy<WideModelCase> {
        (
            prop_oneof![2 => 1u8..=8, 2 => 9u8..=17, 1 => 18u8..=33],
            prop_oneof![3 => 20u16..=300, 1 => 250u16..=260, 1 => 1u16..=8],
            prop_oneof![3 => 20u16..=300, 1 => 250u16..=260, 1 => 1u16..=8],
            prop_oneof![2 => 2u16..=40, 2 => 40u16..=400, 1 => 250u16..=260],
            prop_oneof![2 => 0u32..=300, 3 => 300u32..=6000],
            any::<bool>(),
            any::<bool>(),
            any::<u64>(),
        )
            .prop_map(|(k, n_right, n_left, vocab, n_costs, hit_biased, small_costs, salt)| WideModelCase { k, n_right, n_left, vocab, n_costs, hit_biased, small_costs, salt })
            .boxed()
    }
    fn rule(&self) -> String {
        "compact cases expanded deterministically: K ∈ 1..33 templates, 1..300 right and left ids (around 256 too), 2..400 distinct feature strings per position and side (plus strings shared between positions \
         and sides, '*' cells, ragged rows), 0..6000 bigram.cost lines drawn from occurring features or from the whole vocabulary, BOS/EOS lines, |cost| ≤ 1000 or ≤ 10^5; oracle: as 'connectors' — raw cost == defining sum \
         for EVERY id pair incl. id 0, dual cost == the same wherever every partial sum fits i16, sizes agree; non-trivial = ≥ 256 ids on a side or ≥ 1000 cost lines or K > 16; distinct = hash(case)".into()
    }
    fn check(&self, case: &WideModelCase, ctx: &mut Ctx) -> Result<(), String> {
        let model = case.model();
        let rc = RefConn::from_bigram(&model);
        let (right, left, cost) = model.render();
        let lex = "a,0,0,1,x\n";
        let chardef = "DEFAULT 0 1 0\n";
        let unk = "DEFAULT,0,0,100,*\n";
        let mut tables = vec![];
        for dual in [false, true] {
            let d = guard(|| vibrato::SystemDictionaryBuilder::from_readers_with_bigram_info(lex.as_bytes(), right.as_bytes(), left.as_bytes(), cost.as_bytes(), chardef.as_bytes(), unk.as_bytes(), dual))
                .map_err(|p| format!("building (dual={dual}): {p}"))?
                .map_err(|e| format!("builder rejected a valid bigram model (dual={dual}): {e}"))?;
            tables.push(guard(|| all_costs(&d)).map_err(|p| format!("connector cost (dual={dual}): {p}"))?);
        }
        let (nl, nr, craw) = &tables[0];
        let (nl2, nr2, cdual) = &tables[1];
        if (*nl, *nr) != (rc.num_left, rc.num_right) || (nl2, nr2) != (nl, nr) {
            return Err(format!("connector sizes: raw {nr}x{nl}, dual {nr2}x{nl2}, model {}x{}", rc.num_right, rc.num_left));
        }
        let mut clamp = 0u64;
        let mut nonzero = 0u64;
        for r in 0..*nr {
            for l in 0..*nl {
                let want = rc.cost[r][l];
                ctx.eval();
                let got = i64::from(craw[r * nl + l]);
                if got != want {
                    return Err(format!("raw connector: cost(right {r}, left {l}) = {got}, defining sum = {want} (K={})", model.k()));
                }
                if rc.fits16[r][l] {
                    let gd = i64::from(cdual[r * nl + l]);
                    if gd != want {
                        return Err(format!("dual connector: cost(right {r}, left {l}) = {gd}, defining sum = {want} (K={})", model.k()));
                    }
                } else {
                    clamp += 1;
                }
                nonzero += u64::from(want != 0);
            }
        }
        let k = model.k();
        ctx.label(match k {
            0..=8 => "K_le_8",
            9..=16 => "K_9_16",
            _ => "K_gt16",
        });
        ctx.label_if(case.n_right >= 255 || case.n_left >= 255, "ge_256_ids_on_a_side");
        ctx.label_if(model.costs.len() >= 1000, "ge_1000_cost_lines");
        ctx.label_if(case.vocab >= 256, "ge_256_features_per_position");
        ctx.label_if(clamp > 0, "has_clamp_regime_pairs");
        ctx.label_if(nonzero * 4 >= (*nr * *nl) as u64, "quarter_of_pairs_nonzero");
        if case.n_right >= 255 || case.n_left >= 255 || model.costs.len() >= 1000 || k > 16 {
            ctx.nontrivial(case);
        }
        ctx.sample(|| serde_json::json!({"case": case, "K": k, "cost_lines": model.costs.len(), "nonzero_pairs": nonzero, "first_right_row": model.right_rows[0]}));
        Ok(())
    }
}

// ---------------------------------------------------------------------------------------------
// Cross-build: the same generated models, costs computed in both builds

#[derive(Serialize, Deserialize)]
struct XModel {
    right: String,
    left: String,
    cost: String,
    raw: Vec<i32>,
    dual: Vec<i32>,
    /// per id pair: Σ_p|c_p| ≤ 32767 by the reference (the dual connector cannot have clamped)
    dual_exact: Vec<bool>,
    k: usize,
}

fn costs_of(right: &str, left: &str, cost: &str, dual: bool) -> Result<Vec<i32>, String> {
    let d = guard(|| {
        vibrato::SystemDictionaryBuilder::from_readers_with_bigram_info(
            "a,0,0,0,x\n".as_bytes(),
            right.as_bytes(),
            left.as_bytes(),
            cost.as_bytes(),
            "DEFAULT 0 1 0\n".as_bytes(),
            "DEFAULT,0,0,0,u\n".as_bytes(),
            dual,
        )
    })
    .map_err(|p| format!("build: {p}"))?
    .map_err(|e| format!("build: {e}"))?;
    guard(|| all_costs(&d).2).map_err(|p| format!("cost: {p}"))
}

pub fn xbuild_emit(dir: &Path, seed: u64, n: u32) -> Result<(), String> {
    use proptest::strategy::ValueTree;
    use proptest::test_runner::{Config, RngAlgorithm, TestRng, TestRunner};
    std::fs::create_dir_all(dir).map_err(|e| e.to_string())?;
    let mut sb = [0u8; 32];
    for (i, c) in sb.chunks_mut(8).enumerate() {
        c.copy_from_slice(&crate::engine::splitmix(seed ^ 0xC07 ^ (i as u64) << 32).to_le_bytes());
    }
    let mut runner = TestRunner::new_with_rng(Config::default(), TestRng::from_seed(RngAlgorithm::ChaCha, &sb));
    let strat = prop_oneof![bigram_model(Regime::Small, 7), bigram_model(Regime::Large, 7)];
    for i in 0..n * 5 {
        let m = strat.new_tree(&mut runner).map_err(|e| e.to_string())?.current();
        let (right, left, cost) = m.render();
        let rc = RefConn::from_bigram(&m);
        // a valid model that this build cannot compile is a violation, not an obstacle: it is
        // recorded next to the exchange files and reported by the main run (absorb_xresults)
        let (raw, dual) = match (costs_of(&right, &left, &cost, false), costs_of(&right, &left, &cost, true)) {
            (Ok(a), Ok(b)) => (a, b),
            (a, b) => {
                let e = a.err().or(b.err()).unwrap_or_default();
                let _ = std::fs::write(
                    dir.join("emit_failure.json"),
                    serde_json::to_vec(&serde_json::json!({"error": e, "bigram.right": right, "bigram.left": left, "bigram.cost": cost})).unwrap(),
                );
                continue;
            }
        };
        let x = XModel {
            dual_exact: rc.fits16.iter().flatten().copied().collect(),
            raw,
            dual,
            k: m.k(),
            right,
            left,
            cost,
        };
        std::fs::write(dir.join(format!("{i:05}.json")), serde_json::to_vec(&x).unwrap()).map_err(|e| e.to_string())?;
    }
    std::fs::write(dir.join("emitted_by"), build_flavour()).map_err(|e| e.to_string())?;
    Ok(())
}

pub fn xbuild_consume(dir: &Path) -> Result<XResult, String> {
    let mut res = XResult {
        emitted_by: std::fs::read_to_string(dir.join("emitted_by")).unwrap_or_default(),
        consumed_by: build_flavour().to_string(),
        ..Default::default()
    };
    let mut i = 0;
    loop {
        let p = dir.join(format!("{i:05}.json"));
        if !p.exists() {
            break;
        }
        let x: XModel = serde_json::from_slice(&std::fs::read(&p).map_err(|e| e.to_string())?).map_err(|e| e.to_string())?;
        res.images += 1;
        *res.connectors.entry(format!("K{}", x.k.min(17))).or_insert(0) += 1;
        let v = (|| -> Result<(), String> {
            let raw = costs_of(&x.right, &x.left, &x.cost, false)?;
            res.evaluations += raw.len() as u64;
            if raw != x.raw {
                let k = raw.iter().zip(&x.raw).position(|(a, b)| a != b).unwrap_or(0);
                return Err(format!("raw connector cost #{k} differs between builds: {} here vs {} in the emitting build (K={})", raw[k], x.raw[k], x.k));
            }
            // the dual connector's template split is not deterministic across processes, but its
            // costs are wherever nothing can have been clamped
            let dual = costs_of(&x.right, &x.left, &x.cost, true)?;
            for (k, ((d, ok), xd)) in dual.iter().zip(&x.dual_exact).zip(&x.dual).enumerate() {
                if *ok && d != xd {
                    return Err(format!("dual connector cost #{k} differs between builds: {d} here vs {xd} (K={})", x.k));
                }
            }
            Ok(())
        })();
        if let Err(e) = v {
            res.failures.push(format!("{}: {e}", p.display()));
        }
        i += 1;
    }
    Ok(res)
}

pub fn run(opts: &Opts) -> Report {
    let mut rep = Report::new("C07", "exploration");
    rep.assumptions = vec![
        "cost lines may name '*': a '*' cell counts as 0 whatever bigram.cost lists (the property text)".into(),
        "duplicate (right, left) lines in bigram.cost are not generated (which one counts is unspecified)".into(),
        "dual == defining sum is asserted only where the negative contributions sum to ≥ −32768 and the positive ones to ≤ 32767 (whatever subset is pre-summed, it fits 16 bits and cannot have been clamped)".into(),
    ];
    let a = Connectors;
    let s = ScorerLookups;
    crate::props::committed_replays(&a, opts, &mut rep);
    crate::props::committed_replays(&s, opts, &mut rep);
    run_sub(&a, opts, opts.tier.pick(10_000, 160_000), &mut rep);
    run_sub(&s, opts, opts.tier.pick(6000, 100_000), &mut rep);
    crate::props::committed_replays(&WideScorer, opts, &mut rep);
    crate::props::committed_replays(&WideConnectors, opts, &mut rep);
    run_sub(&WideScorer, opts, opts.tier.pick(400, 8000), &mut rep);
    run_sub(&WideConnectors, opts, opts.tier.pick(160, 3000), &mut rep);
    crate::props::c05::absorb_xresults(&mut rep, opts, "C07");
    rep
}

pub fn replay(path: &Path) -> Option<i32> {
    crate::props::try_strict(&Connectors, "C07", path)
        .or_else(|| crate::props::try_strict(&ScorerLookups, "C07", path))
        .or_else(|| crate::props::try_strict(&WideScorer, "C07", path))
        .or_else(|| crate::props::try_strict(&WideConnectors, "C07", path))
}
