//! C04 — A worker's result depends only on dictionary, options and sentence.
use proptest::collection::vec;
use proptest::prelude::*;
use serde::{Deserialize, Serialize};

use crate::engine::{guard, pick, run_sub, Ctx, Opts, Report, Sub, Tier};
use crate::gen::dict::{assemble_sentence, raw_sentence, DictParams, TokOpts};
use crate::props::common::{build_case_dict, tok_case, TokCase, TokCaseParams};
use crate::refmodel::{tok_of, tokenize_fresh, tokens_of, Tok};

#[derive(Clone, Debug, Serialize, Deserialize, PartialEq, Eq, Hash)]
pub enum Op {
    /// reset_sentence(pool[i])
    Reset(usize),
    ResetEmpty,
    Tokenize,
    /// read every accessor of every token (must not change anything)
    ReadAll,
    InitCounter,
    /// update_connid_counts (only issued right after a Tokenize, as the reorder tool does)
    UpdateCounts,
}

#[derive(Clone, Debug, Serialize, Deserialize, PartialEq, Eq, Hash)]
pub struct HistCase {
    pub base: TokCase,
    /// One history per worker; histories[0] is used by the sequential check.
    pub histories: Vec<Vec<Op>>,
}

pub struct Histories {
    pub threads: usize,
}

fn history(pool: usize, max_len: usize) -> BoxedStrategy<Vec<Op>> {
    vec((0u8..12, any::<u16>()), 1..=max_len)
        .prop_map(move |raw| {
            let mut ops = vec![];
            let mut counter = false;
            let mut tokenized = false;
            for (k, r) in raw {
                let op = match k {
                    0..=3 => Op::Reset(pick(r, pool)),
                    4 => Op::ResetEmpty,
                    5..=8 => Op::Tokenize,
                    9 => Op::ReadAll,
                    10 => {
                        if counter {
                            Op::Tokenize
                        } else {
                            counter = true;
                            Op::InitCounter
                        }
                    }
                    _ => {
                        if counter && tokenized {
                            Op::UpdateCounts
                        } else {
                            Op::Tokenize
                        }
                    }
                };
                tokenized = op == Op::Tokenize || (tokenized && op == Op::UpdateCounts);
                if matches!(op, Op::Reset(_) | Op::ResetEmpty) {
                    tokenized = false;
                }
                ops.push(op);
            }
            ops
        })
        .boxed()
}

fn hist_case(threads: usize) -> BoxedStrategy<HistCase> {
    let p = TokCaseParams {
        dict: DictParams {
            max_rows: 16,
            ..DictParams::default()
        },
        n_sentences: 6,
        max_chunks: 8,
        max_chars: 30,
        with_user: true,
        with_mapping: false,
        space_only_if_exclusive: false,
    };
    (
        tok_case(p),
        vec(history(8, 30), threads),
        raw_sentence(20),
    )
        .prop_map(|(mut base, histories, long)| {
            // pool: 6 generated sentences + a long one + a prefix of the long one
            // (shorter-after-longer on the same text)
            let user = base.user.clone().unwrap_or_default();
            let l = assemble_sentence(&long, &base.spec, &user, 60);
            let short: String = l.chars().take(l.chars().count() / 2).collect();
            base.sentences.push(l);
            base.sentences.push(short);
            base.opts.truncate(1);
            HistCase { base, histories }
        })
        .boxed()
}

/// Runs one history on a worker; `expect[i]` is fresh(pool[i]).
fn run_history(
    tokenizer: &vibrato::Tokenizer,
    pool: &[String],
    expect: &[Vec<Tok>],
    ops: &[Op],
    stats: &mut (u64, bool),
) -> Result<(), String> {
    let mut w = tokenizer.new_worker();
    let mut cur: Option<usize> = None; // None = empty sentence
    let mut tokenized = false;
    let mut prev_len = 0usize;
    let empty: Vec<Tok> = vec![];
    for (step, op) in ops.iter().enumerate() {
        let r = guard(|| -> Result<(), String> {
            match op {
                Op::Reset(i) => {
                    w.reset_sentence(&pool[*i]);
                    if w.num_tokens() != 0 {
                        return Err(format!("{} tokens right after reset_sentence", w.num_tokens()));
                    }
                    let len = pool[*i].chars().count();
                    if (len < prev_len || cur == Some(*i)) && !pool[*i].is_empty() {
                        stats.1 = true;
                    }
                    prev_len = len.max(1);
                    cur = Some(*i);
                    tokenized = false;
                }
                Op::ResetEmpty => {
                    w.reset_sentence("");
                    if w.num_tokens() != 0 {
                        return Err("tokens right after reset_sentence(\"\")".into());
                    }
                    cur = None;
                    tokenized = false;
                }
                Op::Tokenize => {
                    if tokenized {
                        stats.1 = true; // repeated tokenize
                    }
                    w.tokenize();
                    tokenized = true;
                    let want = cur.map_or(&empty, |i| &expect[i]);
                    let got = tokens_of(&w);
                    stats.0 += 1;
                    if &got != want {
                        return Err(format!(
                            "reused worker gives {} tokens {:?}, a fresh worker gives {} tokens {:?}",
                            got.len(),
                            got.iter().map(|t| (t.surface.as_str(), t.lex_type, t.word_id, t.total_cost)).collect::<Vec<_>>(),
                            want.len(),
                            want.iter().map(|t| (t.surface.as_str(), t.lex_type, t.word_id, t.total_cost)).collect::<Vec<_>>(),
                        ));
                    }
                }
                Op::ReadAll => {
                    let a = tokens_of(&w);
                    let b: Vec<Tok> = w.token_iter().map(|t| tok_of(&t)).collect();
                    if a != b {
                        return Err("token(i) and token_iter() disagree".into());
                    }
                    if tokenized {
                        let want = cur.map_or(&empty, |i| &expect[i]);
                        if &a != want {
                            return Err("tokens changed between tokenize and a later read".into());
                        }
                    } else if !a.is_empty() {
                        return Err("tokens present before tokenize".into());
                    }
                }
                Op::InitCounter => w.init_connid_counter(),
                Op::UpdateCounts => w.update_connid_counts(),
            }
            Ok(())
        });
        match r {
            Ok(Ok(())) => {}
            Ok(Err(e)) => return Err(format!("step {step} {op:?} (sentence {:?}): {e}", cur.map(|i| &pool[i]))),
            Err(p) => return Err(format!("step {step} {op:?} (sentence {:?}): {p}", cur.map(|i| &pool[i]))),
        }
    }
    Ok(())
}

impl Sub for Histories {
    type Case = HistCase;
    fn name(&self) -> &'static str {
        match self.threads {
            1 => "history",
            4 => "concurrent4",
            _ => "concurrent16",
        }
    }
    fn max_shrink_iters(&self) -> u32 {
        if self.threads == 1 {
            1500
        } else {
            150
        }
    }
    fn strategy(&self, _tier: Tier) -> BoxedStrategy<HistCase> {
        hist_case(self.threads)
    }
    fn rule(&self) -> String {
        if self.threads == 1 {
            "history of 1-30 operations {reset(s), reset(\"\"), tokenize, read-all, init counter, update counts} over a pool of 8 sentences \
             (incl. a long sentence and its prefix) on one reused worker; model: tokens after tokenize == tokens of a fresh worker, 0 tokens \
             after reset; non-trivial = a tokenize after resetting to a shorter/identical sentence or a repeated tokenize; distinct = hash(dictionary, history)".into()
        } else {
            format!("{} workers over one shared &Tokenizer, each running an independent generated history 12 times over on its own thread (scoped threads, started \
             together); expectations computed single-threaded beforehand; non-trivial as in the sequential check; the harness does not own the schedule", self.threads)
        }
    }
    fn check(&self, case: &HistCase, ctx: &mut Ctx) -> Result<(), String> {
        let b = &case.base;
        let files = b.spec.render();
        let o: TokOpts = b.opts.first().cloned().unwrap_or_default();
        let dict = build_case_dict(&files, b.user.as_deref(), None, false)?;
        let tokenizer = crate::refmodel::make_tokenizer_h(dict, o.ignore_space, o.max_grouping_len, o.history)?;
        let expect: Vec<Vec<Tok>> = guard(|| b.sentences.iter().map(|s| tokenize_fresh(&tokenizer, s)).collect())
            .map_err(|p| format!("fresh tokenization: {p}"))?;
        ctx.label(b.spec.conn.kind());
        if self.threads == 1 {
            let mut st = (0u64, false);
            let r = run_history(&tokenizer, &b.sentences, &expect, &case.histories[0], &mut st);
            for _ in 0..st.0 {
                ctx.eval();
            }
            r?;
            ctx.label_if(st.1, "reuse_after_shorter_or_repeat");
            ctx.label_if(case.histories[0].contains(&Op::ResetEmpty), "has_reset_empty");
            ctx.label_if(case.histories[0].contains(&Op::UpdateCounts), "has_update_counts");
            if st.1 {
                ctx.nontrivial(&(&files, &b.user, &o, &b.sentences, &case.histories[0]));
            }
        } else {
            let barrier = std::sync::Barrier::new(case.histories.len());
            let results: Vec<(Result<(), String>, (u64, bool))> = std::thread::scope(|sc| {
                let hs: Vec<_> = case
                    .histories
                    .iter()
                    .map(|h| {
                        let tokenizer = &tokenizer;
                        let expect = &expect;
                        let barrier = &barrier;
                        let pool = &b.sentences;
                        sc.spawn(move || {
                            let mut st = (0u64, false);
                            barrier.wait();
                            // the history is repeated so that the workers overlap for longer
                            // (a data race needs two workers inside the shared tokenizer at once)
                            let mut r = Ok(());
                            for _ in 0..12 {
                                r = run_history(tokenizer, pool, expect, h, &mut st);
                                if r.is_err() {
                                    break;
                                }
                            }
                            (r, st)
                        })
                    })
                    .collect();
                hs.into_iter()
                    .map(|h| h.join().unwrap_or((Err("worker thread panicked".into()), (0, false))))
                    .collect()
            });
            let mut any = false;
            for (i, (r, st)) in results.into_iter().enumerate() {
                for _ in 0..st.0 {
                    ctx.eval();
                }
                any |= st.1;
                r.map_err(|e| format!("thread {i}: {e}"))?;
            }
            if any {
                ctx.nontrivial(&(&files, &b.user, &o, &b.sentences, &case.histories));
            }
        }
        ctx.sample(|| {
            serde_json::json!({"sentences": b.sentences, "opts": o, "connector": b.spec.conn.kind(),
                               "histories": case.histories.iter().map(|h| format!("{h:?}")).collect::<Vec<_>>()})
        });
        Ok(())
    }
}

// ---------------------------------------------------------------------------------------------
// Long histories: tens of thousands of tokenizations between two sentences on one worker

#[derive(Clone, Debug, Serialize, Deserialize, PartialEq, Eq, Hash)]
pub struct LongHistCase {
    pub base: TokCase,
    /// sentences (indices into the pool) tokenized before the gap, the last one matters most
    pub before: Vec<usize>,
    /// number of filler steps between `before` and `after`
    pub gap: u32,
    /// 0: reset(one-character sentence) + tokenize; 1: every other step is a second tokenize() of the same sentence;
    /// 2: every seventh step resets to the empty sentence; 3: fillers alternate between two one-character sentences
    pub filler_mode: u8,
    pub after: Vec<usize>,
}

pub struct LongHistory;

fn long_hist_case() -> BoxedStrategy<LongHistCase> {
    let p = TokCaseParams {
        dict: DictParams { max_rows: 16, ..DictParams::default() },
        n_sentences: 6,
        max_chunks: 6,
        max_chars: 20,
        with_user: false,
        with_mapping: false,
        space_only_if_exclusive: false,
    };
    (
        tok_case(p),
        vec(any::<u16>(), 1..=3),
        prop_oneof![
            6 => (65_532u32..=65_538),
            2 => (131_068u32..=131_074),
            1 => (252u32..=258),
            2 => (1u32..=3000),
        ],
        0u8..4,
        vec(any::<u16>(), 1..=3),
    )
        .prop_map(|(mut base, b, gap, filler_mode, a)| {
            base.opts.truncate(1);
            let n = base.sentences.len();
            LongHistCase { before: b.iter().map(|&x| pick(x, n)).collect(), gap, filler_mode, after: a.iter().map(|&x| pick(x, n)).collect(), base }
        })
        .boxed()
}

impl Sub for LongHistory {
    type Case = LongHistCase;
    fn name(&self) -> &'static str {
        "long_history"
    }
    fn max_shrink_iters(&self) -> u32 {
        200
    }
    fn strategy(&self, _tier: Tier) -> BoxedStrategy<LongHistCase> {
        long_hist_case()
    }
    fn rule(&self) -> String {
        "one reused worker: 1-3 pool sentences, then a gap of g filler steps, then 1-3 pool sentences; g ∈ 65532..65538 (6/11), 131068..131074, 252..258, 1..3000; fillers are one-character sentences \
         (reset + tokenize), optionally interleaved with repeated tokenize() calls, resets to the empty sentence, or alternating between two sentences; model: every tokenize (fillers included) == tokens of a fresh worker; \
         non-trivial = g ≥ 65535 and the sentences around the gap are longer than the fillers; distinct = hash(case)".into()
    }
    fn check(&self, case: &LongHistCase, ctx: &mut Ctx) -> Result<(), String> {
        let b = &case.base;
        let files = b.spec.render();
        let o: TokOpts = b.opts.first().cloned().unwrap_or_default();
        let dict = build_case_dict(&files, b.user.as_deref(), None, false)?;
        let tokenizer = crate::refmodel::make_tokenizer_h(dict, o.ignore_space, o.max_grouping_len, o.history)?;
        // fillers: the first characters of the pool sentences (at least "a")
        let mut fillers: Vec<String> = b.sentences.iter().filter_map(|s| s.chars().next()).map(|c| c.to_string()).collect();
        fillers.dedup();
        if fillers.is_empty() {
            fillers.push("a".into());
        }
        fillers.truncate(2);
        let expect: Vec<Vec<Tok>> = guard(|| b.sentences.iter().map(|s| tokenize_fresh(&tokenizer, s)).collect()).map_err(|p| format!("fresh tokenization: {p}"))?;
        let fexpect: Vec<Vec<Tok>> = guard(|| fillers.iter().map(|s| tokenize_fresh(&tokenizer, s)).collect()).map_err(|p| format!("fresh tokenization: {p}"))?;
        let empty: Vec<Tok> = vec![];
        let mut evals = 0u64;
        let r = guard(|| -> Result<(), String> {
            let mut w = tokenizer.new_worker();
            let cmp = |w: &vibrato::tokenizer::worker::Worker, want: &Vec<Tok>, what: &str| -> Result<(), String> {
                let got = tokens_of(w);
                if &got != want {
                    return Err(format!(
                        "{what}: reused worker gives {:?}, a fresh worker gives {:?}",
                        got.iter().map(|t| (t.surface.as_str(), t.lex_type, t.word_id, t.total_cost)).collect::<Vec<_>>(),
                        want.iter().map(|t| (t.surface.as_str(), t.lex_type, t.word_id, t.total_cost)).collect::<Vec<_>>()
                    ));
                }
                Ok(())
            };
            for &i in &case.before {
                w.reset_sentence(&b.sentences[i]);
                w.tokenize();
                evals += 1;
                cmp(&w, &expect[i], &format!("before the gap, sentence {:?}", b.sentences[i]))?;
            }
            let mut cur = 0usize;
            let mut cur_empty = false;
            for step in 0..case.gap {
                match case.filler_mode {
                    1 if step % 2 == 1 => {}
                    2 if step % 7 == 3 => {
                        w.reset_sentence("");
                        cur_empty = true;
                    }
                    3 => {
                        cur = (step as usize) % fillers.len();
                        w.reset_sentence(&fillers[cur]);
                        cur_empty = false;
                    }
                    _ => {
                        cur = 0;
                        w.reset_sentence(&fillers[0]);
                        cur_empty = false;
                    }
                }
                w.tokenize();
                evals += 1;
                cmp(&w, if cur_empty { &empty } else { &fexpect[cur] }, &format!("filler step {step} of {}", case.gap))?;
            }
            for &i in &case.after {
                w.reset_sentence(&b.sentences[i]);
                w.tokenize();
                evals += 1;
                cmp(&w, &expect[i], &format!("after a gap of {} filler steps (mode {}), sentence {:?}", case.gap, case.filler_mode, b.sentences[i]))?;
            }
            Ok(())
        });
        for _ in 0..evals.min(200_000) {
            ctx.eval();
        }
        match r {
            Ok(x) => x?,
            Err(p) => return Err(format!("long history: {p}")),
        }
        let long_around = case.before.iter().chain(&case.after).any(|&i| b.sentences[i].chars().count() >= 3);
        ctx.label(match case.gap {
            0..=3000 => "gap_le_3000",
            3001..=70_000 => "gap_around_65536",
            _ => "gap_around_131072",
        });
        ctx.label_if(case.gap == 65_535, "gap_exactly_65535");
        ctx.label_if(case.gap == 65_536, "gap_exactly_65536");
        ctx.label(match case.filler_mode {
            0 => "fillers_plain",
            1 => "fillers_with_repeated_tokenize",
            2 => "fillers_with_empty_sentences",
            _ => "fillers_alternating",
        });
        if case.gap >= 65_535 && long_around {
            ctx.nontrivial(&(&files, &case.before, case.gap, case.filler_mode, &case.after));
        }
        ctx.sample(|| serde_json::json!({"sentences": b.sentences, "before": case.before, "gap": case.gap, "filler_mode": case.filler_mode, "after": case.after, "fillers": fillers, "opts": o}));
        Ok(())
    }
}

pub fn run(opts: &Opts) -> Report {
    let mut rep = Report::new("C04", "exploration");
    rep.assumptions = vec![
        "update_connid_counts is only issued right after a tokenize of the current sentence (as the reorder tool does)".into(),
        "the harness does not own the thread schedule: the concurrent part is a stress test against sequential expectations; \
         Send+Sync of Tokenizer/Dictionary is decided at compile time by the probe crate harness/probes/sendsync; \
         the concurrent runs are repeated under ThreadSanitizer so that a data race is reported on any explored schedule even if the tokens are right"
            .into(),
    ];
    let only_concurrent = std::env::var("VERIF_ONLY").as_deref() == Ok("concurrent");
    let a = Histories { threads: 1 };
    if !only_concurrent {
        crate::props::committed_replays(&a, opts, &mut rep);
        run_sub(&a, opts, opts.tier.pick(8000, 200_000), &mut rep);
    }
    if !only_concurrent {
        crate::props::committed_replays(&LongHistory, opts, &mut rep);
        run_sub(&LongHistory, opts, opts.tier.pick(640, 12_000), &mut rep);
    }
    for t in [4usize, 16] {
        let c = Histories { threads: t };
        if t == 4 {
            crate::props::committed_replays(&c, opts, &mut rep);
        }
        // sharding over 16 OS threads on top of t worker threads oversubscribes the CPU on
        // purpose (more preemption points)
        run_sub(&c, opts, opts.tier.pick(if t == 4 { 1500 } else { 400 }, if t == 4 { 30_000 } else { 8000 }), &mut rep);
    }
    // result of the ThreadSanitizer pass over the same concurrent sub-checks (run by the driver)
    if let Ok(line) = std::env::var("VERIF_TSAN_RESULT") {
        let evals = line
            .split_whitespace()
            .find_map(|w| w.strip_prefix("evaluations="))
            .and_then(|v| v.parse::<u64>().ok())
            .unwrap_or(0);
        if evals > 0 {
            rep.evaluations += evals;
            rep.subs.push(serde_json::json!({"sub": "tsan_concurrent", "evaluations": evals,
                "what": "concurrent4 + concurrent16 re-run in a ThreadSanitizer build (nightly, -Zbuild-std): no data race reported on any explored schedule"}));
            rep.rules.push("[tsan_concurrent] the concurrent sub-checks re-run under ThreadSanitizer at a quarter of the case count; any reported data race is a violation".into());
        }
    }
    rep
}

pub fn replay(path: &std::path::Path) -> Option<i32> {
    crate::props::try_strict(&Histories { threads: 1 }, "C04", path)
        .or_else(|| crate::props::try_strict(&Histories { threads: 4 }, "C04", path))
        .or_else(|| crate::props::try_strict(&Histories { threads: 16 }, "C04", path))
        .or_else(|| crate::props::try_strict(&LongHistory, "C04", path))
}
