//! C10 — Dictionary builders are total and their acceptance implies safe use.
use std::path::Path;

use proptest::collection::vec;
use proptest::prelude::*;
use serde::{Deserialize, Serialize};
use vibrato::verif_hooks as hooks;

use crate::engine::{guard, pick, run_sub, Ctx, Opts, Report, Sub, Tier};
use crate::gen::dict::{render_lex_rows, ConnFiles, DictParams, ALPHABET};
use crate::props::common::{tok_case, TokCase, TokCaseParams};
use crate::refmodel::chardef;
use crate::refmodel::{tokens_of, Tok};

#[derive(Clone, Copy, Debug, Serialize, Deserialize, PartialEq, Eq, Hash)]
pub enum Target {
    Lex,
    Matrix,
    CharDef,
    Unk,
    User,
    BigramRight,
    BigramLeft,
    BigramCost,
    /// the same edits applied to bigram.right and bigram.left
    BigramBoth,
}

#[derive(Clone, Debug, Serialize, Deserialize, PartialEq, Eq, Hash)]
pub enum Edit {
    DelLine(u16),
    DupLine(u16),
    SwapLines(u16, u16),
    InsertLine(u16, String),
    DelField(u16, u16),
    DupField(u16, u16),
    SetField(u16, u16, String),
    /// cut the file `n` bytes before its end
    CutBeforeEnd(u16),
    Crlf,
    SetByte(u16, u8),
    Empty,
    /// char.def: append `n` category lines and a range line naming the last one (and one more)
    AppendCats(u16),
    Replace(Vec<u8>),
}

#[derive(Clone, Debug, Serialize, Deserialize, PartialEq, Eq, Hash)]
pub struct MutCase {
    pub base: TokCase,
    pub target: Target,
    pub edits: Vec<Edit>,
    /// for bigram dictionaries: build the dual connector
    pub dual: bool,
}

pub struct Builders;

const VALUES: &[&str] = &[
    "-1", "0", "1", "16", "17", "18", "19", "255", "256", "32767", "32768", "-32769", "65535", "65536", "2147483648", "4294967296",
    "18446744073709551616", "1e3", "０", "", "x", "DEFAULT", "SPACE", "UNDEF", "0x10000", "0x0000", "0xFFFF..0x0001", "0x0041..0x10000",
    "0x0041..", "*", "\"", "1 1", "a\tb", "a/b", "+1", " 1", "0x", "0x0x41", "#", "0xFFFFFFFFFFFFFFFF", "0x0..0xFFFFFFFFFFFFFFFF", "0xFFFFFFFFFFFFFFFF..0x0",
    "0x7FFFFFFFFFFFFFFF", "0x10000000000000000", "18446744073709551615", "9223372036854775807", "-9223372036854775808", "4294967295",
    // cells longer than the 4096-byte buffers of the CSV helpers (plain, and quoted with commas inside)
    include_str!("long4097.txt"), include_str!("long9000.txt"),
];
// Not in the vocabulary on purpose: i32::MIN / i32::MAX as a bigram.cost value. The i32 accumulators (the raw
// connector's sum over templates, the Viterbi path cost) are unprotected by design, as in MeCab; costs of that
// magnitude are outside the stated domain (DESIGN §9) and would only exercise the overflow checks this harness
// switches on for the library.

const LINES: &[&str] = &[
    "", "# comment", "   ", "0x3042 DEFAULT", "0x0041..0x005A", "0x0041 # no category", "NEWCAT 1 1 2", "NEWCAT 1 1", "DEFAULT 1 0 3",
    "0x0061..0x007A DEFAULT NEWCAT", "a,0,0,1", "a,0,0,1,", ",0,0,1,x", "b,0,0", "\"unterminated,0,0,1,x", "1 1 5", "0 0", "9\tA,B", "A/B\t3", "A/B/C\t3",
    "A\t3", "x/y\t", "1\t", "\t", "EOS",
];

fn delim(t: Target) -> char {
    match t {
        Target::Lex | Target::Unk | Target::User => ',',
        Target::Matrix | Target::CharDef => ' ',
        Target::BigramRight | Target::BigramLeft | Target::BigramCost | Target::BigramBoth => '\t',
    }
}

fn split_lines(b: &[u8]) -> Vec<Vec<u8>> {
    // keeps line terminators attached
    let mut v = vec![];
    let mut cur = vec![];
    for &c in b {
        cur.push(c);
        if c == b'\n' {
            v.push(std::mem::take(&mut cur));
        }
    }
    if !cur.is_empty() {
        v.push(cur);
    }
    v
}

pub fn apply_edit(data: &[u8], e: &Edit, t: Target) -> Vec<u8> {
    let mut lines = split_lines(data);
    let n = lines.len();
    let d = delim(t) as u8;
    let field_edit = |line: &Vec<u8>, f: &dyn Fn(&mut Vec<Vec<u8>>)| -> Vec<u8> {
        let nl = line.ends_with(b"\n");
        let body = if nl { &line[..line.len() - 1] } else { &line[..] };
        let mut fields: Vec<Vec<u8>> = body.split(|&c| c == d).map(|s| s.to_vec()).collect();
        f(&mut fields);
        let mut out = fields.join(&d);
        if nl {
            out.push(b'\n');
        }
        out
    };
    match e {
        Edit::DelLine(i) if n > 0 => {
            lines.remove(pick(*i, n));
        }
        Edit::DupLine(i) if n > 0 => {
            let k = pick(*i, n);
            let mut l = lines[k].clone();
            if !l.ends_with(b"\n") {
                l.push(b'\n');
                lines[k].push(b'\n');
                l.pop();
            }
            lines.insert(k, l);
        }
        Edit::SwapLines(i, j) if n > 1 => {
            let (a, b) = (pick(*i, n), pick(*j, n));
            if !lines[n - 1].ends_with(b"\n") {
                lines[n - 1].push(b'\n');
            }
            lines.swap(a, b);
        }
        Edit::InsertLine(i, s) => {
            let k = pick(*i, n + 1);
            if k == n && n > 0 && !lines[n - 1].ends_with(b"\n") {
                lines[n - 1].push(b'\n');
            }
            let mut l = s.as_bytes().to_vec();
            l.push(b'\n');
            lines.insert(k, l);
        }
        Edit::DelField(i, j) if n > 0 => {
            let k = pick(*i, n);
            lines[k] = field_edit(&lines[k], &|f| {
                let m = f.len();
                f.remove(pick(*j, m));
            });
        }
        Edit::DupField(i, j) if n > 0 => {
            let k = pick(*i, n);
            lines[k] = field_edit(&lines[k], &|f| {
                let m = pick(*j, f.len());
                let x = f[m].clone();
                f.insert(m, x);
            });
        }
        Edit::SetField(i, j, v) if n > 0 => {
            let k = pick(*i, n);
            lines[k] = field_edit(&lines[k], &|f| {
                let m = pick(*j, f.len());
                f[m] = v.as_bytes().to_vec();
            });
        }
        Edit::CutBeforeEnd(k) => {
            let keep = data.len().saturating_sub(usize::from(*k) % (data.len().min(80) + 1));
            return data[..keep].to_vec();
        }
        Edit::Crlf => {
            let mut out = vec![];
            for &c in data {
                if c == b'\n' {
                    out.push(b'\r');
                }
                out.push(c);
            }
            return out;
        }
        Edit::SetByte(i, b) if !data.is_empty() => {
            let mut out = data.to_vec();
            out[pick(*i, data.len())] = *b;
            return out;
        }
        Edit::Empty => return vec![],
        Edit::AppendCats(k) => {
            let mut out = data.to_vec();
            if !out.ends_with(b"\n") && !out.is_empty() {
                out.push(b'\n');
            }
            let k = usize::from(*k);
            for i in 0..k {
                out.extend_from_slice(format!("XC{i} {} {} {}\n", i % 2, (i / 2) % 2, i % 4).as_bytes());
            }
            if k > 0 {
                out.extend_from_slice(format!("0x0062 XC{}\n0x0063..0x0064 DEFAULT XC{}\n", k - 1, k / 2).as_bytes());
            }
            return out;
        }
        Edit::Replace(b) => return b.clone(),
        _ => {}
    }
    lines.concat()
}

fn edit_strategy() -> BoxedStrategy<Edit> {
    let val = proptest::sample::select(VALUES.to_vec()).prop_map(|s| s.to_string());
    let line = proptest::sample::select(LINES.to_vec()).prop_map(|s| s.to_string());
    prop_oneof![
        2 => any::<u16>().prop_map(Edit::DelLine),
        1 => any::<u16>().prop_map(Edit::DupLine),
        1 => (any::<u16>(), any::<u16>()).prop_map(|(a, b)| Edit::SwapLines(a, b)),
        3 => (any::<u16>(), line).prop_map(|(a, s)| Edit::InsertLine(a, s)),
        3 => (any::<u16>(), any::<u16>()).prop_map(|(a, b)| Edit::DelField(a, b)),
        1 => (any::<u16>(), any::<u16>()).prop_map(|(a, b)| Edit::DupField(a, b)),
        8 => (any::<u16>(), any::<u16>(), val).prop_map(|(a, b, v)| Edit::SetField(a, b, v)),
        3 => (0u16..80).prop_map(Edit::CutBeforeEnd),
        1 => Just(Edit::Crlf),
        2 => (any::<u16>(), prop_oneof![Just(0xFFu8), Just(b'"'), Just(b'\r'), Just(0u8), Just(b','), Just(b'\t'), Just(0xE3u8), any::<u8>()]).prop_map(|(a, b)| Edit::SetByte(a, b)),
        1 => Just(Edit::Empty),
        2 => prop_oneof![Just(1u16), Just(17), Just(18), Just(19), Just(31), Just(32), Just(33), Just(254), Just(255), Just(256), Just(300)].prop_map(Edit::AppendCats),
        1 => vec(any::<u8>(), 0..120).prop_map(Edit::Replace),
    ]
    .boxed()
}

fn mut_case() -> BoxedStrategy<MutCase> {
    let p = TokCaseParams {
        dict: DictParams {
            max_rows: 8,
            max_cats: 6,
            ..DictParams::default()
        },
        n_sentences: 4,
        max_chunks: 5,
        max_chars: 12,
        with_user: true,
        with_mapping: false,
        space_only_if_exclusive: false,
    };
    (tok_case(p), 0u8..16, vec(edit_strategy(), 1..=3), any::<bool>())
        .prop_map(|(base, t, mut edits, dual)| {
            let bigram = matches!(base.spec.conn, crate::gen::dict::ConnSpec::Bigram { .. });
            let target = match t {
                0..=3 => Target::CharDef,
                4..=6 => Target::Lex,
                7 | 8 => Target::Unk,
                9 | 10 => {
                    if base.user.is_some() {
                        Target::User
                    } else {
                        Target::Lex
                    }
                }
                11..=13 => {
                    if bigram {
                        [Target::BigramRight, Target::BigramLeft, Target::BigramCost][usize::from(t - 11)]
                    } else {
                        Target::Matrix
                    }
                }
                14 => {
                    if bigram {
                        Target::BigramBoth
                    } else {
                        Target::Matrix
                    }
                }
                _ => {
                    if bigram {
                        Target::BigramCost
                    } else {
                        Target::Matrix
                    }
                }
            };
            if target != Target::CharDef {
                edits.retain(|e| !matches!(e, Edit::AppendCats(_)));
                if edits.is_empty() {
                    edits.push(Edit::CutBeforeEnd(1));
                }
            }
            MutCase {
                base,
                target,
                edits,
                dual,
            }
        })
        .boxed()
}

#[derive(Clone, Debug)]
pub struct FileSet {
    pub lex: Vec<u8>,
    pub chardef: Vec<u8>,
    pub unk: Vec<u8>,
    pub matrix: Option<Vec<u8>>,
    pub bigram: Option<(Vec<u8>, Vec<u8>, Vec<u8>)>,
    pub user: Option<Vec<u8>>,
}

pub fn file_set(case: &MutCase) -> FileSet {
    let f = case.base.spec.render();
    let mut fs = FileSet {
        lex: f.lex.into_bytes(),
        chardef: f.chardef.into_bytes(),
        unk: f.unk.into_bytes(),
        matrix: None,
        bigram: None,
        user: case.base.user.as_ref().map(|u| render_lex_rows(u, 0).into_bytes()),
    };
    match f.conn {
        ConnFiles::Matrix(m) => fs.matrix = Some(m.into_bytes()),
        ConnFiles::Bigram { right, left, cost, .. } => fs.bigram = Some((right.into_bytes(), left.into_bytes(), cost.into_bytes())),
    }
    let t = case.target;
    if t == Target::BigramBoth {
        if let Some(b) = fs.bigram.as_mut() {
            for e in &case.edits {
                b.0 = apply_edit(&b.0, e, t);
                b.1 = apply_edit(&b.1, e, t);
            }
        }
        return fs;
    }
    let slot: Option<&mut Vec<u8>> = match t {
        Target::Lex => Some(&mut fs.lex),
        Target::CharDef => Some(&mut fs.chardef),
        Target::Unk => Some(&mut fs.unk),
        Target::Matrix => fs.matrix.as_mut(),
        Target::User => fs.user.as_mut(),
        Target::BigramRight => fs.bigram.as_mut().map(|b| &mut b.0),
        Target::BigramLeft => fs.bigram.as_mut().map(|b| &mut b.1),
        Target::BigramCost => fs.bigram.as_mut().map(|b| &mut b.2),
        Target::BigramBoth => None,
    };
    if let Some(s) = slot {
        for e in &case.edits {
            *s = apply_edit(s, e, t);
        }
    }
    fs
}

/// Structural validity of a tokenization without reference to dictionary contents.
fn structural(input: &str, toks: &[Tok], ignore_space: bool) -> Result<(), String> {
    let c2b: Vec<usize> = input.char_indices().map(|(b, _)| b).chain(std::iter::once(input.len())).collect();
    let n = c2b.len() - 1;
    let mut prev = 0;
    let mut concat = String::new();
    for (i, t) in toks.iter().enumerate() {
        let (s, e) = t.range_char;
        if s >= e || e > n || s < prev {
            return Err(format!("token {i} has range {s}..{e} (previous end {prev}, {n} chars)"));
        }
        if !ignore_space && s != prev {
            return Err(format!("gap {prev}..{s} without ignore_space"));
        }
        if t.range_byte != (c2b[s], c2b[e]) || t.surface != input[c2b[s]..c2b[e]] {
            return Err(format!("token {i} byte range/surface inconsistent with its character range"));
        }
        concat.push_str(&t.surface);
        prev = e;
    }
    if !ignore_space && concat != input {
        return Err("tokens do not cover the input".into());
    }
    if input.is_empty() && !toks.is_empty() {
        return Err("empty input produced tokens".into());
    }
    Ok(())
}

fn hex_points(chardef: &[u8]) -> Vec<char> {
    let s = String::from_utf8_lossy(chardef);
    let mut v = vec![];
    for tok in s.split(|c: char| !c.is_ascii_alphanumeric()) {
        if let Some(h) = tok.strip_prefix("0x") {
            if let Ok(u) = u32::from_str_radix(h, 16) {
                for d in [-1i64, 0, 1] {
                    if let Some(c) = u32::try_from(i64::from(u) + d).ok().and_then(char::from_u32) {
                        v.push(c);
                    }
                }
            }
        }
    }
    v.truncate(40);
    v
}

impl Sub for Builders {
    type Case = MutCase;
    fn name(&self) -> &'static str {
        "builders"
    }
    fn max_shrink_iters(&self) -> u32 {
        1200
    }
    fn strategy(&self, _tier: Tier) -> BoxedStrategy<MutCase> {
        mut_case()
    }
    fn rule(&self) -> String {
        "a valid generated file set (lex.csv, matrix.def or bigram.right/left/cost, char.def, unk.def, optional user CSV) with 1-3 format-aware edits applied to one file: delete/duplicate/swap/insert a line, \
         delete/duplicate a field, set a field to a boundary value (-1, 16, 255, 256, 65535, 65536, 2^31, 2^64, 1e3, full-width digit, empty, undefined category, 0x10000, reversed range, ...), cut near the end, CRLF, \
         a single byte (0xFF, quote, NUL, CR, ...), empty file, 1-300 extra categories with range lines using them, or random bytes; oracle: (1) the builders return Ok or Err, never panic; (2) every accepted dictionary \
         tokenizes 8+ probe strings (alphabet, code points named in its char.def ±1, astral) structurally validly with ignore_space off and, if SPACE exists, on; (3) when the strict reference parser can read the \
         (mutated) char.def, the accepted dictionary's category set / primary category / invoke / group / length of every probe character equal the reference; non-trivial = the edited file differs from the valid one; \
         distinct = hash(all file bytes)".into()
    }
    fn check(&self, case: &MutCase, ctx: &mut Ctx) -> Result<(), String> {
        let fs = file_set(case);
        let orig = {
            let mut c = case.clone();
            c.edits.clear();
            file_set(&c)
        };
        let desc = || {
            format!(
                "target {:?}, edits {:?}; lex={:?} chardef={:?} unk={:?} matrix={:?} bigram={:?} user={:?}",
                case.target,
                case.edits,
                String::from_utf8_lossy(&fs.lex),
                String::from_utf8_lossy(&fs.chardef),
                String::from_utf8_lossy(&fs.unk),
                fs.matrix.as_ref().map(|m| String::from_utf8_lossy(m).to_string()),
                fs.bigram.as_ref().map(|b| (String::from_utf8_lossy(&b.0).to_string(), String::from_utf8_lossy(&b.1).to_string(), String::from_utf8_lossy(&b.2).to_string())),
                fs.user.as_ref().map(|m| String::from_utf8_lossy(m).to_string()),
            )
        };
        // a matrix.def header announcing billions of cells makes the builder allocate gigabytes
        // (memory exhaustion aborts the process; that is neither Ok, Err nor a panic and is
        // reported as inconclusive by policy), so such headers are kept out of the search
        if let Some(m) = &fs.matrix {
            let head = String::from_utf8_lossy(m.split(|&b| b == b'\n').next().unwrap_or(&[])).to_string();
            let dims: Vec<u64> = head.split(' ').filter_map(|t| t.parse::<u64>().ok()).collect();
            if dims.len() == 2 && dims[0].saturating_mul(dims[1]) > 16_000_000 {
                ctx.count("skipped_matrix_header_over_16M_cells", 1);
                return Ok(());
            }
        }
        ctx.eval();
        // (1) totality
        let built = guard(|| match (&fs.matrix, &fs.bigram) {
            (Some(m), _) => vibrato::SystemDictionaryBuilder::from_readers(&fs.lex[..], &m[..], &fs.chardef[..], &fs.unk[..]),
            (None, Some(b)) => vibrato::SystemDictionaryBuilder::from_readers_with_bigram_info(
                &fs.lex[..],
                &b.0[..],
                &b.1[..],
                &b.2[..],
                &fs.chardef[..],
                &fs.unk[..],
                case.dual,
            ),
            _ => unreachable!(),
        })
        .map_err(|p| format!("builder panicked: {p}; {}", desc()))?;
        let mut dict = match built {
            Ok(d) => d,
            Err(e) => {
                ctx.label(&format!("rejected_{:?}", case.target));
                if ctx.samples.len() < 2 {
                    let msg = e.to_string();
                    ctx.sample(|| serde_json::json!({"target": format!("{:?}", case.target), "edits": format!("{:?}", case.edits),
                        "outcome": format!("rejected: {msg}"), "edited_file": self.edited_text(case, &fs)}));
                }
                ctx.label(match e {
                    vibrato::errors::VibratoError::InvalidFormat(_) => "err_invalid_format",
                    vibrato::errors::VibratoError::InvalidArgument(_) => "err_invalid_argument",
                    _ => "err_other",
                });
                self.count_nontrivial(case, &fs, &orig, ctx);
                return Ok(());
            }
        };
        if let Some(u) = &fs.user {
            match guard(|| dict.reset_user_lexicon_from_reader(Some(&u[..]))).map_err(|p| format!("reset_user_lexicon_from_reader panicked: {p}; {}", desc()))? {
                Ok(d) => dict = d,
                Err(_) => {
                    ctx.label("rejected_user");
                    self.count_nontrivial(case, &fs, &orig, ctx);
                    return Ok(());
                }
            }
        }
        ctx.label(&format!("accepted_{:?}", case.target));
        // (3) no silent mis-assignment of character categories
        let probes: Vec<char> = ALPHABET.iter().copied().chain(hex_points(&fs.chardef)).collect();
        if let Some(rdef) = chardef::parse(&fs.chardef) {
            let names = hooks::categories(&dict);
            for &c in &probes {
                if c as u32 > 0xFFFF && rdef.covers_nul() {
                    continue; // open known finding of C03 (astral characters take U+0000's class)
                }
                let (set, primary) = rdef.info(c);
                let (idset, base, invoke, group, length) = hooks::char_info(&dict, c);
                let mut got: Vec<String> = (0..32)
                    .filter(|i| idset >> i & 1 == 1)
                    .map(|i| names.get(i).cloned().unwrap_or_else(|| format!("<id {i}>")))
                    .collect();
                got.sort();
                let pname = names.get(base as usize).cloned().unwrap_or_default();
                if got != set || pname != primary.name || invoke != primary.invoke || group != primary.group || u32::from(length) != u32::from(primary.length) {
                    return Err(format!(
                        "character {:?} (U+{:04X}): dictionary says categories {got:?}, primary {pname:?} invoke={invoke} group={group} length={length}; \
                         char.def says categories {set:?}, primary {:?} invoke={} group={} length={}; char.def = {:?}",
                        c,
                        c as u32,
                        primary.name,
                        primary.invoke,
                        primary.group,
                        primary.length,
                        String::from_utf8_lossy(&fs.chardef)
                    ));
                }
            }
            ctx.label("chardef_compared_with_reference");
        }
        // (2) acceptance implies safe use
        let per_cat = hooks::unk_entries_per_category(&dict);
        let missing_unk = per_cat.iter().any(|&n| n == 0);
        if missing_unk {
            ctx.count("excluded_by_known_finding_category_without_unk_entry", 1);
        }
        let usable = |c: char| -> bool {
            let (_, base, ..) = hooks::char_info(&dict, c);
            per_cat.get(base as usize).copied().unwrap_or(0) > 0
        };
        let mut sentences: Vec<String> = case.base.sentences.clone();
        sentences.push(probes.iter().collect());
        sentences.push(probes.iter().rev().step_by(2).collect());
        sentences.push("a\u{10000}\u{1F600} \t\u{3000}a".to_string());
        sentences.push(String::new());
        for (i, c) in probes.iter().enumerate().take(12) {
            sentences.push(std::iter::repeat(*c).take(1 + i % 4).collect());
        }
        let sentences: Vec<String> = sentences.into_iter().map(|s| s.chars().filter(|&c| usable(c)).collect()).collect();
        let has_space = hooks::categories(&dict).iter().any(|c| c == "SPACE");
        let mut tokenizer = vibrato::Tokenizer::new(dict);
        for ignore_space in [false, true] {
            if ignore_space && !has_space {
                continue;
            }
            tokenizer = match guard(|| tokenizer.ignore_space(ignore_space)).map_err(|p| format!("ignore_space({ignore_space}) panicked: {p}; {}", desc()))? {
                Ok(t) => t,
                Err(e) => return Err(format!("ignore_space({ignore_space}) rejected although SPACE is defined: {e}")),
            };
            for mgl in [0usize, 2] {
                tokenizer = tokenizer.max_grouping_len(mgl);
                let mut w = tokenizer.new_worker();
                for s in &sentences {
                    let toks = guard(|| {
                        w.reset_sentence(s);
                        w.tokenize();
                        tokens_of(&w)
                    })
                    .map_err(|p| format!("accepted dictionary panics on {s:?} (ignore_space={ignore_space}): {p}; {}", desc()))?;
                    ctx.eval();
                    structural(s, &toks, ignore_space).map_err(|e| format!("accepted dictionary, sentence {s:?} (ignore_space={ignore_space}): {e}; {}", desc()))?;
                }
            }
        }
        self.count_nontrivial(case, &fs, &orig, ctx);
        ctx.sample(|| serde_json::json!({"target": format!("{:?}", case.target), "edits": format!("{:?}", case.edits), "outcome": "accepted and tokenized safely",
            "edited_file": self.edited_text(case, &fs)}));
        Ok(())
    }
}

impl Builders {
    fn edited_text(&self, case: &MutCase, fs: &FileSet) -> String {
        let b: Vec<u8> = match case.target {
            Target::Lex => fs.lex.clone(),
            Target::CharDef => fs.chardef.clone(),
            Target::Unk => fs.unk.clone(),
            Target::Matrix => fs.matrix.clone().unwrap_or_default(),
            Target::User => fs.user.clone().unwrap_or_default(),
            Target::BigramRight | Target::BigramBoth => fs.bigram.as_ref().map(|b| b.0.clone()).unwrap_or_default(),
            Target::BigramLeft => fs.bigram.as_ref().map(|b| b.1.clone()).unwrap_or_default(),
            Target::BigramCost => fs.bigram.as_ref().map(|b| b.2.clone()).unwrap_or_default(),
        };
        String::from_utf8_lossy(&b).chars().take(400).collect()
    }
    fn count_nontrivial(&self, _case: &MutCase, fs: &FileSet, orig: &FileSet, ctx: &mut Ctx) {
        let changed = fs.lex != orig.lex || fs.chardef != orig.chardef || fs.unk != orig.unk || fs.matrix != orig.matrix || fs.bigram != orig.bigram || fs.user != orig.user;
        if changed {
            ctx.nontrivial(&(&fs.lex, &fs.chardef, &fs.unk, &fs.matrix, &fs.bigram, &fs.user));
        } else {
            ctx.label("edit_was_a_no_op");
        }
    }
}

// ---------------------------------------------------------------------------------------------
// arbitrary mapping sequences

#[derive(Clone, Debug, Serialize, Deserialize, PartialEq, Eq, Hash)]
pub struct AnyMapCase {
    pub base: TokCase,
    /// 1-3 successive (left, right) mappings
    pub maps: Vec<(Vec<u16>, Vec<u16>)>,
    /// load base.user after the mappings (instead of before)
    pub user_after: bool,
}

pub struct AnyMapping;

impl Sub for AnyMapping {
    type Case = AnyMapCase;
    fn name(&self) -> &'static str {
        "any_mapping"
    }
    fn strategy(&self, _tier: Tier) -> BoxedStrategy<AnyMapCase> {
        let p = TokCaseParams {
            dict: DictParams {
                max_rows: 6,
                max_cats: 4,
                ..DictParams::default()
            },
            n_sentences: 3,
            with_user: true,
            with_mapping: false,
            ..TokCaseParams::default()
        };
        let ids = || vec(prop_oneof![6 => 0u16..9, 1 => Just(u16::MAX), 1 => any::<u16>()], 0..=9);
        (
            tok_case(p),
            vec((ids(), ids(), 0u8..4, vec(any::<u16>(), 8), vec(any::<u16>(), 8)), 1..=3),
            any::<bool>(),
        )
            .prop_map(|(mut base, raw, user_after)| {
                // most mappings are valid permutations on one or both sides, so that sequences
                // of accepted mappings (followed by a user lexicon) occur
                let nl = base.spec.conn.num_left();
                let nr = base.spec.conn.num_right();
                let maps = raw
                    .into_iter()
                    .map(|(mut left, mut right, valid, lk, rk)| {
                        if valid != 3 {
                            left = crate::props::common::perm_from_keys(&lk, nl);
                        }
                        if valid != 2 {
                            right = crate::props::common::perm_from_keys(&rk, nr);
                        }
                        (left, right)
                    })
                    .collect();
                if let Some(u) = &base.user {
                    let extra: String = u.iter().take(3).map(|r| r.surface.clone()).collect();
                    base.sentences.push(extra);
                }
                AnyMapCase { base, maps, user_after }
            })
            .boxed()
    }
    fn rule(&self) -> String {
        "a valid dictionary, then 1-3 successive mappings (valid permutations on both sides in half of the cases, otherwise arbitrary id sequences of length 0-9 with values 0..8, u16::MAX or random on one side), with the user lexicon \
         loaded before or after them; oracle: map_connection_ids_from_iter and reset_user_lexicon_from_reader return Ok or Err without panicking, and whatever dictionary results tokenizes the sentences (incl. user surfaces) structurally validly; \
         non-trivial = every case; distinct = hash(sizes, sequences, order)".into()
    }
    fn check(&self, case: &AnyMapCase, ctx: &mut Ctx) -> Result<(), String> {
        let b = &case.base;
        let files = b.spec.render();
        let user = b.user.as_deref();
        let mut d = crate::props::common::build_case_dict(&files, if case.user_after { None } else { user }, None, false)?;
        ctx.eval();
        let mut accepted = 0;
        for (i, (l, r)) in case.maps.iter().enumerate() {
            let res = guard(|| d.map_connection_ids_from_iter(l.iter().copied(), r.iter().copied()))
                .map_err(|p| format!("mapping {i} ({l:?}, {r:?}) of {:?} on {}x{}: {p}", case.maps, b.spec.conn.num_right(), b.spec.conn.num_left()))?;
            match res {
                Ok(x) => {
                    d = x;
                    accepted += 1;
                }
                Err(_) => {
                    ctx.label("rejected");
                    ctx.nontrivial(&(b.spec.conn.num_left(), b.spec.conn.num_right(), &case.maps, case.user_after));
                    return Ok(());
                }
            }
        }
        if case.user_after {
            if let Some(u) = user {
                let csv = render_lex_rows(u, 0);
                match guard(|| d.reset_user_lexicon_from_reader(Some(csv.as_bytes()))).map_err(|p| format!("user lexicon after mappings {:?}: {p}", case.maps))? {
                    Ok(x) => d = x,
                    Err(e) => return Err(format!("valid user lexicon rejected after {accepted} accepted mappings: {e}")),
                }
            }
        }
        ctx.label(&format!("accepted_{accepted}_mappings"));
        ctx.label_if(case.user_after && user.is_some(), "user_lexicon_after_mappings");
        let tokenizer = vibrato::Tokenizer::new(d);
        let mut w = tokenizer.new_worker();
        for s in &b.sentences {
            let toks = guard(|| {
                w.reset_sentence(s);
                w.tokenize();
                tokens_of(&w)
            })
            .map_err(|p| format!("after accepted mappings {:?} (user lexicon after: {}): tokenize({s:?}): {p}", case.maps, case.user_after))?;
            ctx.eval();
            structural(s, &toks, false)?;
        }
        ctx.nontrivial(&(b.spec.conn.num_left(), b.spec.conn.num_right(), &case.maps, case.user_after, b.spec.conn.kind()));
        ctx.sample(|| serde_json::json!({"maps": case.maps, "user_after": case.user_after, "connector": format!("{}x{}", b.spec.conn.num_right(), b.spec.conn.num_left())}));
        Ok(())
    }
}

// ---------------------------------------------------------------------------------------------
// Bigram files with about 2^16 rows

#[derive(Clone, Debug, Serialize, Deserialize, PartialEq, Eq, Hash)]
pub struct BigRowsCase {
    pub rows_right: u32,
    pub rows_left: u32,
    /// number of templates (1, 2 or 9)
    pub k: u8,
    pub dual: bool,
    /// every row has its own feature (listed in bigram.cost) instead of seven shared ones
    pub distinct: bool,
    pub salt: u16,
}

pub struct BuildersScale;

impl Sub for BuildersScale {
    type Case = BigRowsCase;
    fn name(&self) -> &'static str {
        "builders_scale"
    }
    fn max_shrink_iters(&self) -> u32 {
        8
    }
    fn strategy(&self, _tier: Tier) -> BoxedStrategy<BigRowsCase> {
        let rows = || prop_oneof![2 => 65_533u32..=65_538, 2 => 1u32..=4];
        (rows(), rows(), prop_oneof![Just(1u8), Just(2u8), Just(9u8)], any::<bool>(), any::<bool>(), any::<u16>())
            .prop_map(|(rows_right, rows_left, k, dual, distinct, salt)| {
                // one large side is enough (time)
                let rows_left = if rows_right > 1000 { rows_left % 5 + 1 } else { rows_left };
                BigRowsCase { rows_right, rows_left, k, dual, distinct, salt }
            })
            .boxed()
    }
    fn rule(&self) -> String {
        "bigram.right / bigram.left with 65533..65538 rows on one side (ids up to and beyond what a u16 can name) and 1-5 on the other, 1, 2 or 9 templates, shared or per-row features, raw or dual connector; \
         oracle: the builder returns Ok or Err without panicking; an accepted dictionary reports rows+1 ids, tokenizes the probe sentences (words on the first, middle and last id) without panicking, and \
         map_connection_ids_from_iter with the reversal of all ids returns Ok or Err without panicking; non-trivial = at least 65535 rows; distinct = hash(case)".into()
    }
    fn check(&self, case: &BigRowsCase, ctx: &mut Ctx) -> Result<(), String> {
        let k = usize::from(case.k);
        let side = |n: u32, tag: char| -> String {
            let mut s = String::with_capacity(n as usize * 12);
            for i in 1..=n {
                let f = if case.distinct { format!("{tag}{i}") } else { format!("{tag}{}", i % 7) };
                s.push_str(&format!("{i}\t{}\n", vec![f; k].join(",")));
            }
            s
        };
        let right = side(case.rows_right, 'r');
        let left = side(case.rows_left, 'l');
        let mut cost = String::new();
        let (big, bt, small, st) = if case.rows_right >= case.rows_left { (case.rows_right, 'r', case.rows_left, 'l') } else { (case.rows_left, 'l', case.rows_right, 'r') };
        let nfeat = if case.distinct { big } else { 7.min(big) };
        for i in 0..nfeat {
            let b = format!("{bt}{}", if case.distinct { i + 1 } else { i });
            let s = format!("{st}{}", if case.distinct { 1 + i % small } else { i % 7 });
            let (rf, lf) = if bt == 'r' { (b, s) } else { (s, b) };
            cost.push_str(&format!("{rf}/{lf}\t{}\n", (i as i32 * 13 + i32::from(case.salt)) % 21 - 10));
        }
        // words on the first, a middle and the last id that a u16 can name on each side
        let last_r = case.rows_right.min(65_535);
        let last_l = case.rows_left.min(65_535);
        let lex = format!("a,{},{},1,A\nb,{},{},2,B\nab,1,1,5,AB\n", last_l, last_r, (last_l + 1) / 2, (last_r + 1) / 2);
        let chardef = "DEFAULT 0 1 0\nSPACE 0 1 0\n0x0020 SPACE\n";
        let unk = "DEFAULT,0,0,100,*\nSPACE,0,0,10,*\n";
        let built = guard(|| vibrato::SystemDictionaryBuilder::from_readers_with_bigram_info(lex.as_bytes(), right.as_bytes(), left.as_bytes(), cost.as_bytes(), chardef.as_bytes(), unk.as_bytes(), case.dual))
            .map_err(|p| format!("builder panicked ({} right rows, {} left rows, K={k}, dual={}): {p}", case.rows_right, case.rows_left, case.dual))?;
        ctx.eval();
        match built {
            Err(_) => {
                ctx.label("rejected");
            }
            Ok(d) => {
                ctx.label("accepted");
                let (nl, nr) = (hooks::num_left(&d), hooks::num_right(&d));
                if (nl, nr) != (case.rows_left as usize + 1, case.rows_right as usize + 1) {
                    return Err(format!("accepted dictionary reports {nr} right / {nl} left ids for {} / {} rows", case.rows_right, case.rows_left));
                }
                // mapping: reversal of every id a u16 can name (valid iff all ids are nameable)
                let rev = |n: usize| -> Vec<u16> { (1..n.min(65_536)).rev().map(|x| x as u16).collect() };
                let tokenizer = vibrato::Tokenizer::new(d);
                let toks = guard(|| {
                    let mut w = tokenizer.new_worker();
                    let mut out = vec![];
                    for s in ["ab", "ba", "a b", "x", "bab"] {
                        w.reset_sentence(s);
                        w.tokenize();
                        out.push((0..w.num_tokens()).map(|i| w.token(i).total_cost()).collect::<Vec<_>>());
                    }
                    out
                })
                .map_err(|p| format!("accepted dictionary ({nr} right / {nl} left ids, dual={}) panics while tokenizing: {p}", case.dual))?;
                let d = tokenizer_into_dict(tokenizer, &lex, &right, &left, &cost, chardef, unk, case.dual)?;
                let mapped = guard(|| d.map_connection_ids_from_iter(rev(nl), rev(nr))).map_err(|p| format!("map_connection_ids_from_iter on {nr} right / {nl} left ids (dual={}): {p}", case.dual))?;
                ctx.eval();
                if let Ok(dm) = mapped {
                    ctx.label("mapping_accepted");
                    let tk = vibrato::Tokenizer::new(dm);
                    let toks2 = guard(|| {
                        let mut w = tk.new_worker();
                        let mut out = vec![];
                        for s in ["ab", "ba", "a b", "x", "bab"] {
                            w.reset_sentence(s);
                            w.tokenize();
                            out.push((0..w.num_tokens()).map(|i| w.token(i).total_cost()).collect::<Vec<_>>());
                        }
                        out
                    })
                    .map_err(|p| format!("mapped dictionary ({nr} right / {nl} left ids, dual={}) panics while tokenizing: {p}", case.dual))?;
                    if toks2 != toks {
                        return Err(format!("total costs changed by reversing the ids: {toks:?} vs {toks2:?}"));
                    }
                } else {
                    ctx.label("mapping_rejected");
                }
            }
        }
        ctx.label_if(case.dual, "dual");
        ctx.label_if(case.rows_right.max(case.rows_left) >= 65_536, "more_rows_than_u16_ids");
        if case.rows_right.max(case.rows_left) >= 65_535 {
            ctx.nontrivial(case);
        }
        ctx.sample(|| serde_json::to_value(case).unwrap());
        Ok(())
    }
}

/// The tokenizer owns the dictionary; rebuild it for the mapping step (building is deterministic apart from
/// the dual connector's template split, which does not matter for "no panic" and equal total costs).
#[allow(clippy::too_many_arguments)]
fn tokenizer_into_dict(_t: vibrato::Tokenizer, lex: &str, right: &str, left: &str, cost: &str, chardef: &str, unk: &str, dual: bool) -> Result<vibrato::Dictionary, String> {
    guard(|| vibrato::SystemDictionaryBuilder::from_readers_with_bigram_info(lex.as_bytes(), right.as_bytes(), left.as_bytes(), cost.as_bytes(), chardef.as_bytes(), unk.as_bytes(), dual))
        .map_err(|p| format!("second build panicked: {p}"))?
        .map_err(|e| format!("second build of the same files rejected: {e}"))
}

pub fn run(opts: &Opts) -> Report {
    let mut rep = Report::new("C10", "exploration");
    rep.assumptions = vec![
        "an accepted dictionary with a category that has no unk.def entry is an open known finding: characters of such categories are removed from the probe sentences (counted)".into(),
        "clause (3) applies only when the strict reference parser can interpret the mutated char.def; otherwise the implementation may accept or reject".into(),
        "astral probe characters are skipped for clause (3) when a range line covers U+0000 (open known finding of C03)".into(),
    ];
    let a = Builders;
    let m = AnyMapping;
    crate::props::committed_replays(&a, opts, &mut rep);
    crate::props::committed_replays(&m, opts, &mut rep);
    // the open known finding shared with C01 is demonstrated through C01's predicate
    crate::props::committed_replays(&crate::props::c01::Partition { long: false, stress: false }, opts, &mut rep);
    run_sub(&a, opts, opts.tier.pick(60_000, 800_000), &mut rep);
    run_sub(&m, opts, opts.tier.pick(10_000, 150_000), &mut rep);
    crate::props::committed_replays(&BuildersScale, opts, &mut rep);
    run_sub(&BuildersScale, opts, opts.tier.pick(32, 400), &mut rep);
    rep
}

pub fn replay(path: &Path) -> Option<i32> {
    crate::props::try_strict(&Builders, "C10", path)
        .or_else(|| crate::props::try_strict(&AnyMapping, "C10", path))
        .or_else(|| crate::props::try_strict(&BuildersScale, "C10", path))
}
