//! C17 — Rewrite rules: the first registered matching rule applies.
//! C18 — Feature templates expand per MeCab semantics and define connection classes.
use std::collections::BTreeMap;
use std::path::Path;

use proptest::collection::vec;
use proptest::prelude::*;
use serde::{Deserialize, Serialize};
use vibrato::verif_hooks::train as hooks;

use crate::engine::{guard, pick, run_sub, Ctx, Opts, Report, Sub, Tier, Violation};
use crate::gen::csv::split_record;
use crate::gen::train::{bigram_side, rules, train_spec, unigram_template, RewriteDef, Rule, TrainSpec};
use crate::props::trainc::{gen_bigram, gen_dict, known_empty_bigram_table, split_lex_row, train};
use crate::refmodel::train::{ref_expand, ref_rewrite};

// ---------------------------------------------------------------------------------------------
// C17

#[derive(Clone, Debug, Serialize, Deserialize, PartialEq, Eq, Hash)]
pub struct RewriteCase {
    pub rules: Vec<Rule>,
    pub section: u8,
    pub features: Vec<Vec<String>>,
}

pub struct Rewriter;

const FCELLS: &[&str] = &["N", "V", "x", "y", "A", "*", "k", "Z"];

fn rule_pairs(r: &[Rule]) -> Vec<(Vec<String>, Vec<String>)> {
    r.iter().map(|r| (r.pattern.clone(), r.rewrite.clone())).collect()
}

fn check_rewrite(rules_: &[Rule], section: u8, feats: &[String]) -> Result<(Option<Vec<String>>, usize), String> {
    let mut def = RewriteDef::default();
    // decoy rules in the other sections make sure the section headers select the right set
    let decoy = vec![Rule {
        pattern: vec!["*".into()],
        rewrite: vec!["DECOY".into()],
    }];
    def.unigram = decoy.clone();
    def.left = decoy.clone();
    def.right = decoy;
    match section {
        0 => def.unigram = rules_.to_vec(),
        1 => def.left = rules_.to_vec(),
        _ => def.right = rules_.to_vec(),
    }
    let text = def.render();
    let got = guard(|| hooks::rewrite(text.as_bytes(), section, feats))
        .map_err(|p| format!("rewrite: {p}; rules {rules_:?} features {feats:?}"))?
        .map_err(|e| format!("rewrite.def rejected: {e}; {text:?}"))?;
    let pairs = rule_pairs(rules_);
    let want = ref_rewrite(&pairs, feats);
    if got != want {
        return Err(format!(
            "features {feats:?} with rules {:?}: rewritten to {got:?}, the first matching rule in file order gives {want:?}",
            rules_.iter().map(|r| format!("{} -> {}", r.pattern.join(","), r.rewrite.join(","))).collect::<Vec<_>>()
        ));
    }
    // number of matching rules (for non-triviality)
    let nmatch = pairs
        .iter()
        .filter(|(p, _)| p.len() <= feats.len() && p.iter().zip(feats).all(|(a, b)| crate::refmodel::train::pattern_matches(a, b)))
        .count();
    Ok((got, nmatch))
}

impl Sub for Rewriter {
    type Case = RewriteCase;
    fn name(&self) -> &'static str {
        "rewriter"
    }
    fn strategy(&self, _tier: Tier) -> BoxedStrategy<RewriteCase> {
        (
            rules(8).prop_filter("at least one rule", |r| !r.is_empty()),
            0u8..3,
            // two short and two long feature lists: references up to $12 resolve in the long ones
            (vec(vec(any::<u16>(), 0..=5), 2), vec(vec(any::<u16>(), 6..=13), 2)).prop_map(|(mut a, b)| {
                a.extend(b);
                a
            }),
            any::<u8>(),
        )
            .prop_map(|(mut rules, section, fraw, wide)| {
                // multi-digit references ($10, $11, $12): a third of the cases each
                let (six, four) = match wide % 3 {
                    1 => ("$10", "$12"),
                    2 => ("$11", "$4"),
                    _ => ("$6", "$4"),
                };
                for r in rules.iter_mut() {
                    for c in r.rewrite.iter_mut() {
                        if c == "$6" {
                            *c = six.to_string();
                        } else if c == "$4" {
                            *c = four.to_string();
                        }
                    }
                }
                (rules, section, fraw)
            })
            .prop_map(|(rules, section, fraw)| RewriteCase {
                rules,
                section,
                features: fraw
                    .iter()
                    .map(|f| f.iter().map(|&x| FCELLS[pick(x, FCELLS.len())].to_string()).collect())
                    .collect(),
            })
            .boxed()
    }
    fn rule(&self) -> String {
        "rule lists of 1-8 rules (patterns of 1-4 positions over '*', literals, '(a|b)' alternatives; rewrites of 1-4 cells of literals and $n with n in 1-4, 6 or the multi-digit 10, 11, 12; feature lists of 0-5 and of 6-13 cells, so both absent and resolved multi-digit references occur), built to share pattern prefixes with earlier \
         rules on purpose and to interleave wildcard and literal first columns, in one of the three sections (decoy rules in the other two) × 4 feature lists of 0-5 cells; oracle: reference scan in file order (first prefix-matching rule wins, \
         $n substitution, None if no rule matches) through the rewrite hook which parses the rendered rewrite.def; non-trivial = ≥2 rules match the feature list; distinct = hash(rules, features)".into()
    }
    fn check(&self, case: &RewriteCase, ctx: &mut Ctx) -> Result<(), String> {
        for f in &case.features {
            let (got, nmatch) = check_rewrite(&case.rules, case.section, f)?;
            ctx.eval();
            ctx.label_if(got.is_none(), "no_rule_matches");
            ctx.label_if(nmatch >= 2, "several_rules_match");
            if nmatch >= 2 {
                ctx.nontrivial(&(&case.rules, f));
            }
        }
        ctx.sample(|| serde_json::json!({"rules": case.rules.iter().map(|r| format!("{}\t{}", r.pattern.join(","), r.rewrite.join(","))).collect::<Vec<_>>(),
            "section": case.section, "features": case.features}));
        Ok(())
    }
}

/// Exhaustive sub-tier: all rule lists of ≤3 rules × pattern length ≤2 over {*, a, b, (a|b)}
/// against all feature lists of length ≤2 over {a,b,c}.
fn exhaustive(opts: &Opts, rep: &mut Report) {
    let syms = ["*", "a", "b", "(a|b)", "(a|c)"];
    let mut patterns: Vec<Vec<String>> = vec![];
    for a in syms {
        patterns.push(vec![a.to_string()]);
        for b in syms {
            patterns.push(vec![a.to_string(), b.to_string()]);
        }
    }
    let fs = ["a", "b", "c"];
    let mut feats: Vec<Vec<String>> = vec![vec![]];
    for a in fs {
        feats.push(vec![a.to_string()]);
        for b in fs {
            feats.push(vec![a.to_string(), b.to_string()]);
        }
    }
    let np = patterns.len(); // 30
    let t0 = std::time::Instant::now();
    let mut lists = 0u64;
    let mut evals = 0u64;
    let mut nontrivial = 0u64;
    let mk = |idx: &[usize]| -> Vec<Rule> {
        idx.iter()
            .enumerate()
            .map(|(k, &p)| Rule {
                pattern: patterns[p].clone(),
                rewrite: vec![format!("R{k}"), "$1".to_string(), "$2".to_string()],
            })
            .collect()
    };
    let mut run = |idx: &[usize], rep: &mut Report| -> bool {
        let rules_ = mk(idx);
        lists += 1;
        for f in &feats {
            evals += 1;
            match check_rewrite(&rules_, (lists % 3) as u8, f) {
                Ok((_, n)) => {
                    if n >= 2 {
                        nontrivial += 1;
                    }
                }
                Err(e) => {
                    let case = RewriteCase {
                        rules: rules_.clone(),
                        section: (lists % 3) as u8,
                        features: vec![f.clone()],
                    };
                    let path = crate::engine::write_replay(opts, "C17", "rewriter", &e, &case, &format!("exhaustive-{lists}"));
                    rep.violations.push(Violation {
                        sub: "exhaustive_small_rules".into(),
                        reason: e,
                        replay: path,
                    });
                    return false;
                }
            }
        }
        true
    };
    'outer: for a in 0..np {
        if !run(&[a], rep) {
            break 'outer;
        }
        for b in 0..np {
            if !run(&[a, b], rep) {
                break 'outer;
            }
            for c in 0..np {
                if !run(&[a, b, c], rep) {
                    break 'outer;
                }
            }
        }
    }
    rep.evaluations += evals;
    rep.nontrivial += nontrivial;
    rep.exhaustive = Some(true);
    rep.subs.push(serde_json::json!({"sub": "exhaustive_small_rules", "rule_lists": lists, "evaluations": evals, "several_rules_match": nontrivial,
        "exhaustive": true, "wall_s": t0.elapsed().as_secs_f64()}));
    rep.rules.push("[exhaustive_small_rules] ALL ordered rule lists of 1-3 rules whose patterns have 1-2 positions over {*, a, b, (a|b), (a|c)} (30+900+27000 lists, outputs identify the rule and echo $1,$2) × ALL feature lists of length 0-2 over {a,b,c} \
        (13 lists): exhaustive for that sub-space; non-trivial = ≥2 rules match".into());
}

// ---------------------------------------------------------------------------------------------
// Large rule lists (tens of thousands of trie nodes)

#[derive(Clone, Debug, Serialize, Deserialize, PartialEq, Eq, Hash)]
pub struct BigRewriteCase {
    /// number of rules; each creates `depth` fresh trie nodes unless it shares a first cell
    pub n_rules: u32,
    pub depth: u8,
    /// every `share`-th rule reuses the first cell of an earlier rule (0 = never)
    pub share: u16,
    pub section: u8,
    pub salt: u32,
}

impl BigRewriteCase {
    pub fn rules(&self) -> Vec<Rule> {
        let mut out = Vec::with_capacity(self.n_rules as usize);
        for i in 0..self.n_rules {
            let first = if self.share > 0 && i % u32::from(self.share) == u32::from(self.share) - 1 && i > 0 {
                format!("k{}", (i.wrapping_mul(2654435761) ^ self.salt) % i)
            } else {
                format!("k{i}")
            };
            let mut pattern = vec![first];
            for d in 1..self.depth {
                pattern.push(match (i + u32::from(d) + self.salt) % 5 {
                    0 => "*".to_string(),
                    1 => "(v|w)".to_string(),
                    2 => format!("m{}", i % 7),
                    _ => "v".to_string(),
                });
            }
            out.push(Rule { pattern, rewrite: vec![format!("R{i}"), "$2".into(), "$1".into(), "$9".into()] });
        }
        out
    }
}

pub struct BigRewriter;

impl Sub for BigRewriter {
    type Case = BigRewriteCase;
    fn name(&self) -> &'static str {
        "rewriter_large"
    }
    fn max_shrink_iters(&self) -> u32 {
        60
    }
    fn strategy(&self, _tier: Tier) -> BoxedStrategy<BigRewriteCase> {
        (
            prop_oneof![3 => 32_760u32..=32_775, 3 => 65_530u32..=65_545, 2 => 21_840u32..=21_850, 1 => 40_000u32..=70_000, 1 => 100u32..=2000],
            2u8..=3,
            prop_oneof![2 => Just(0u16), 1 => 2u16..=50],
            0u8..3,
            any::<u32>(),
        )
            .prop_map(|(n_rules, depth, share, section, salt)| BigRewriteCase { n_rules, depth, share, section, salt })
            .boxed()
    }
    fn rule(&self) -> String {
        "rule lists of 21840..21850, 32760..32775, 65530..65545 or 40000..70000 rules (2 or 3 pattern cells each, i.e. 2^16 and 2^17 trie nodes are crossed; distinct first cells, optionally every k-th rule re-using the first cell of an \
         earlier rule; '*', alternatives and literals in the later cells) in one section; 600 feature lists aimed at the first, middle, boundary and last rules plus non-matching ones; oracle: linear first-match scan in file order; \
         non-trivial = more than 65536 trie nodes; distinct = hash(case)".into()
    }
    fn check(&self, case: &BigRewriteCase, ctx: &mut Ctx) -> Result<(), String> {
        let rules_ = case.rules();
        let mut def = RewriteDef::default();
        let decoy = vec![Rule { pattern: vec!["*".into()], rewrite: vec!["DECOY".into()] }];
        def.unigram = decoy.clone();
        def.left = decoy.clone();
        def.right = decoy;
        match case.section {
            0 => def.unigram = rules_.clone(),
            1 => def.left = rules_.clone(),
            _ => def.right = rules_.clone(),
        }
        let text = def.render();
        // probes: rule indices around interesting places, with matching and non-matching tails
        let n = case.n_rules;
        let mut idx: Vec<u32> = vec![0, 1, n / 2, n - 1, n.saturating_sub(2)];
        for b in [21_845u32, 32_767, 32_768, 43_690, 65_535, 65_536] {
            for d in 0..6u32 {
                idx.push((b + d).saturating_sub(3).min(n - 1));
            }
        }
        let mut st = u64::from(case.salt) | 1;
        let mut next = || {
            st = st.wrapping_mul(6364136223846793005).wrapping_add(1442695040888963407);
            (st >> 33) as u32
        };
        while idx.len() < 200 {
            idx.push(next() % n);
        }
        let mut probes: Vec<Vec<String>> = vec![];
        for &i in &idx {
            for tail in [vec!["v", "v"], vec!["w", "m3"], vec!["zz"]] {
                let mut f = vec![format!("k{i}")];
                f.extend(tail.iter().map(|s| s.to_string()));
                probes.push(f);
            }
        }
        probes.push(vec!["nomatch".into(), "v".into()]);
        probes.push(vec![]);
        let got = guard(|| hooks::rewrite_many(text.as_bytes(), case.section, &probes))
            .map_err(|p| format!("rewrite with {} rules: {p}", rules_.len()))?
            .map_err(|e| format!("rewrite.def with {} rules rejected: {e}", rules_.len()))?;
        // reference: rules indexed by first cell (the linear scan restricted to the rules that can match the first cell)
        let mut by_first: std::collections::HashMap<&str, Vec<usize>> = std::collections::HashMap::new();
        for (j, r) in rules_.iter().enumerate() {
            by_first.entry(r.pattern[0].as_str()).or_default().push(j);
        }
        for (f, g) in probes.iter().zip(&got) {
            ctx.eval();
            let cands: Vec<(Vec<String>, Vec<String>)> = f
                .first()
                .and_then(|k| by_first.get(k.as_str()))
                .map(|v| v.iter().map(|&j| (rules_[j].pattern.clone(), rules_[j].rewrite.clone())).collect())
                .unwrap_or_default();
            let want = ref_rewrite(&cands, f);
            if *g != want {
                return Err(format!("{} rules (depth {}, share {}): features {f:?} rewritten to {g:?}, the first matching rule in file order gives {want:?}", rules_.len(), case.depth, case.share));
            }
        }
        let nodes = u64::from(n) * u64::from(case.depth);
        ctx.label_if(nodes > 65_536, "more_than_65536_trie_nodes");
        ctx.label_if(nodes > 131_072, "more_than_131072_trie_nodes");
        ctx.label_if(case.share > 0, "shared_first_cells");
        if nodes > 65_536 {
            ctx.nontrivial(case);
        }
        ctx.sample(|| serde_json::json!({"case": case, "first_rules": rules_.iter().take(3).map(|r| format!("{} -> {}", r.pattern.join(","), r.rewrite.join(","))).collect::<Vec<_>>(), "probes": probes.len()}));
        Ok(())
    }
}

pub fn run_c17(opts: &Opts) -> Report {
    let mut rep = Report::new("C17", "exploration");
    rep.assumptions = vec![
        "only the documented rule grammar is generated: '$n' with n ≥ 1; '$0' and non-numeric '$x' are outside it".into(),
        "rule cells contain no white space or commas (the file format cannot express them)".into(),
    ];
    let a = Rewriter;
    crate::props::committed_replays(&a, opts, &mut rep);
    run_sub(&a, opts, opts.tier.pick(40_000, 600_000), &mut rep);
    exhaustive(opts, &mut rep);
    crate::props::committed_replays(&BigRewriter, opts, &mut rep);
    run_sub(&BigRewriter, opts, opts.tier.pick(48, 800), &mut rep);
    rep
}

// ---------------------------------------------------------------------------------------------
// C18 (a): function level

#[derive(Clone, Debug, Serialize, Deserialize, PartialEq, Eq, Hash)]
pub struct ExpandCase {
    pub unigram: Vec<String>,
    pub bigram: Vec<(String, String)>,
    /// (kind 0/1/2, feature cells, category id)
    pub calls: Vec<(u8, Vec<String>, u32)>,
}

pub struct Templates;

const ECELLS: &[&str] = &["N", "V", "x", "*", "p,q", "", "A", "N"];

impl Sub for Templates {
    type Case = ExpandCase;
    fn name(&self) -> &'static str {
        "templates"
    }
    fn strategy(&self, _tier: Tier) -> BoxedStrategy<ExpandCase> {
        (
            (1usize..=4).prop_flat_map(|n| (0..n).map(unigram_template).collect::<Vec<_>>()),
            (1usize..=6).prop_flat_map(|n| (0..n).map(|j| (bigram_side(j % 3, 'L'), bigram_side(j % 3, 'R'))).collect::<Vec<_>>()),
            vec((0u8..3, vec(any::<u16>(), 0..=5), 0u32..4), 1..=40),
        )
            .prop_map(|(unigram, bigram, craw)| ExpandCase {
                unigram,
                bigram,
                calls: craw
                    .into_iter()
                    .map(|(k, f, c)| (k, f.iter().map(|&x| ECELLS[pick(x, ECELLS.len())].to_string()).collect(), c))
                    .collect(),
            })
            .boxed()
    }
    fn rule(&self) -> String {
        "template sets (1-4 UNIGRAM, 1-6 BIGRAM; literal prefixes shared between templates on purpose, %F/%F?/%t, %L/%L?, %R/%R? with indices 0-4, repeated references) × a history of 1-40 extraction calls through one extractor \
         (rows with quoted cells, '*' cells, empty cells, rows shorter than the largest index); oracle: reference MeCab expansion; a template yields no id exactly when the reference yields no feature, and over the whole history \
         equal strings ⇔ equal ids per namespace (unigram/left/right), ids dense from 1; non-trivial = a string recurs after a different one and a '?' reference suppresses a feature; distinct = hash(templates, calls)".into()
    }
    fn check(&self, case: &ExpandCase, ctx: &mut Ctx) -> Result<(), String> {
        let mut def = String::new();
        for t in &case.unigram {
            def.push_str(&format!("UNIGRAM {t}\n"));
        }
        for (l, r) in &case.bigram {
            def.push_str(&format!("BIGRAM {l}/{r}\n"));
        }
        let calls: Vec<hooks::ExpandCall> = case
            .calls
            .iter()
            .map(|(k, f, c)| hooks::ExpandCall {
                kind: *k,
                features: f.clone(),
                cate_id: *c,
            })
            .collect();
        let res = guard(|| hooks::expand(def.as_bytes(), &calls))
            .map_err(|p| format!("expand: {p}; feature.def {def:?}"))?
            .map_err(|e| format!("feature.def rejected: {e}; {def:?}"))?;
        // string <-> id maps built from the reference strings and the returned ids
        let mut s2i: [BTreeMap<String, u32>; 3] = Default::default();
        let mut i2s: [BTreeMap<u32, String>; 3] = Default::default();
        let mut recur = false;
        let mut suppressed = false;
        for (ci, ((kind, feats, cate), ids)) in case.calls.iter().zip(&res.ids).enumerate() {
            ctx.eval();
            let ns = usize::from(*kind);
            let expected: Vec<Option<String>> = match kind {
                0 => case.unigram.iter().map(|t| ref_expand(t, 'F', feats, *cate)).collect(),
                1 => case.bigram.iter().map(|t| ref_expand(&t.0, 'L', feats, 0)).collect(),
                _ => case.bigram.iter().map(|t| ref_expand(&t.1, 'R', feats, 0)).collect(),
            };
            suppressed |= expected.iter().any(|e| e.is_none());
            // the unigram call returns only the produced features, in template order
            let exp_ids: Vec<Option<&String>> = if *kind == 0 { expected.iter().filter(|e| e.is_some()).map(|e| e.as_ref()).collect() } else { expected.iter().map(|e| e.as_ref()).collect() };
            if exp_ids.len() != ids.len() {
                return Err(format!("call {ci} (kind {kind}, features {feats:?}): {} ids returned, reference expects {} ({expected:?})", ids.len(), exp_ids.len()));
            }
            for (e, id) in exp_ids.iter().zip(ids) {
                match (e, id) {
                    (None, None) => {}
                    (Some(s), Some(id)) => {
                        if let Some(prev) = s2i[ns].get(*s) {
                            if prev != id {
                                return Err(format!("call {ci}: string {s:?} got id {id} but had id {prev} before (equal strings must get equal ids)"));
                            }
                            recur |= s2i[ns].len() > 1;
                        } else {
                            if let Some(other) = i2s[ns].get(id) {
                                return Err(format!("call {ci}: id {id} is used for {s:?} and for {other:?} (different strings must get different ids)"));
                            }
                            let next = s2i[ns].len() as u32 + 1;
                            if *id != next {
                                return Err(format!("call {ci}: new string {s:?} got id {id}, ids are expected to be dense ({next})"));
                            }
                            s2i[ns].insert((*s).clone(), *id);
                            i2s[ns].insert(*id, (*s).clone());
                        }
                    }
                    (None, Some(id)) => return Err(format!("call {ci} (features {feats:?}): id {id} returned where the reference expands to no feature ({expected:?})")),
                    (Some(s), None) => return Err(format!("call {ci} (features {feats:?}): no id where the reference expands to {s:?}")),
                }
            }
        }
        // the extractor's own string->id maps must be exactly the reference's
        for (ns, m) in [&res.unigram_map, &res.left_map, &res.right_map].iter().enumerate() {
            let got: BTreeMap<String, u32> = m.iter().cloned().collect();
            if got != s2i[ns] {
                return Err(format!("namespace {ns}: extractor map {got:?} != reference map {:?}", s2i[ns]));
            }
        }
        ctx.label_if(recur, "string_recurs");
        ctx.label_if(suppressed, "optional_suppressed");
        if recur && suppressed {
            ctx.nontrivial(&(&def, &case.calls));
        }
        ctx.sample(|| serde_json::json!({"feature.def": def, "calls": case.calls.iter().take(6).collect::<Vec<_>>()}));
        Ok(())
    }
}

// ---------------------------------------------------------------------------------------------
// C18 (b): dictionary level

pub struct Classes;

fn cells_of(line_tail: &str) -> Vec<String> {
    split_record(line_tail)
}

impl Sub for Classes {
    type Case = TrainSpec;
    fn name(&self) -> &'static str {
        "classes"
    }
    fn max_shrink_iters(&self) -> u32 {
        300
    }
    fn strategy(&self, _tier: Tier) -> BoxedStrategy<TrainSpec> {
        train_spec(6, true)
    }
    fn rule(&self) -> String {
        "TrainSpec trained and exported (lex.csv, unk.def, user.csv, bigram.left, bigram.right); oracle: for every seed row, unknown entry and 0,0,0 user row the reference computes the right-context tuple (right rewrite rules, then the %R templates) \
         and the left-context tuple (left rewrite rules, then %L): rows with equal right-context tuples have equal left ids (equal left-context tuples ⇒ equal right ids); the tuple on line `left id` of bigram.left equals the row's right-context tuple \
         position by position except where the file shows '*' (dropped zero-weight feature), and an absent feature is always '*'; likewise bigram.right / right id / left-context; ids are dense from 1; \
         non-trivial = ≥2 rows share a class while ≥2 do not, and a rewrite rule fired; distinct = hash(files)".into()
    }
    fn check(&self, spec: &TrainSpec, ctx: &mut Ctx) -> Result<(), String> {
        let mut model = match train(spec, true) {
            Ok(m) => m,
            Err(e) if crate::props::trainc::is_timeout(&e, ctx) => return Ok(()),
            Err(e) => return Err(e),
        };
        if !ctx.strict && known_empty_bigram_table(&mut model)? {
            ctx.count("excluded_by_known_finding_empty_bigram_table_with_user_lexicon", 1);
            return Ok(());
        }
        let out = gen_dict(&mut model)?;
        let bg = gen_bigram(&mut model)?;
        ctx.eval();
        let parse_side = |text: &str| -> Result<Vec<Vec<String>>, String> {
            let mut rows = vec![];
            for (i, line) in text.lines().enumerate() {
                let (id, tail) = line.split_once('\t').ok_or_else(|| format!("bad bigram row {line:?}"))?;
                if id.parse::<usize>().ok() != Some(i + 1) {
                    return Err(format!("bigram row ids are not dense from 1: {line:?} at position {}", i + 1));
                }
                rows.push(cells_of(tail));
            }
            Ok(rows)
        };
        let left_rows = parse_side(&bg.left)?; // per left id: right-context features
        let right_rows = parse_side(&bg.right)?; // per right id: left-context features
        let rr = |r: &[Rule]| -> Vec<(Vec<String>, Vec<String>)> { r.iter().map(|x| (x.pattern.clone(), x.rewrite.clone())).collect() };
        let (rl, rrt) = (rr(&spec.rewrite.left), rr(&spec.rewrite.right));
        let mut rewritten = false;
        // rows: (description, cells, left id, right id)
        let mut rows: Vec<(String, Vec<String>, u32, u32)> = vec![];
        for (i, line) in out.lex.lines().enumerate() {
            let (_, l, r, _, _) = split_lex_row(line)?;
            rows.push((format!("lex.csv row {i}"), spec.lex[i].cells.clone(), l, r));
        }
        let mut order = vec![];
        for c in 0..spec.cats.len() {
            for (k, (cat, _)) in spec.unk.iter().enumerate() {
                if *cat == c {
                    order.push(k);
                }
            }
        }
        for (j, line) in out.unk.lines().enumerate() {
            let (_, l, r, _, _) = split_lex_row(line)?;
            rows.push((format!("unk.def row {j}"), spec.unk[order[j]].1.clone(), l, r));
        }
        if let Some(user) = &spec.user {
            for (j, line) in out.user.lines().enumerate() {
                if (user[j].left, user[j].right, user[j].cost) == (0, 0, 0) {
                    let (_, l, r, _, _) = split_lex_row(line)?;
                    rows.push((format!("user.csv row {j}"), user[j].cells.clone(), l, r));
                }
            }
        }
        // Sharing is checked among the training-time rows and among the user rows separately:
        // zero-weight features are dropped (shown as '*') from training-time rows only, so a user
        // word can legitimately get its own class although its tuple equals a seed word's
        // (the two classes then have identical, all-zero, costs at the dropped positions).
        let mut by_tr: BTreeMap<(bool, Vec<Option<String>>), u32> = BTreeMap::new();
        let mut by_tl: BTreeMap<(bool, Vec<Option<String>>), u32> = BTreeMap::new();
        for (what, cells, l, r) in &rows {
            let is_user = what.starts_with("user.csv");
            let fr = ref_rewrite(&rrt, cells).map(|x| {
                rewritten = true;
                x
            });
            let fl = ref_rewrite(&rl, cells).map(|x| {
                rewritten = true;
                x
            });
            let fr = fr.unwrap_or_else(|| cells.clone());
            let fl = fl.unwrap_or_else(|| cells.clone());
            let t_r: Vec<Option<String>> = spec.bigram_templates.iter().map(|t| ref_expand(&t.1, 'R', &fr, 0)).collect();
            let t_l: Vec<Option<String>> = spec.bigram_templates.iter().map(|t| ref_expand(&t.0, 'L', &fl, 0)).collect();
            for (name, tuple, id, file_rows, by) in [("bigram.left", &t_r, *l, &left_rows, &mut by_tr), ("bigram.right", &t_l, *r, &right_rows, &mut by_tl)] {
                if id == 0 || id as usize > file_rows.len() {
                    return Err(format!("{what}: id {id} has no line in {name} ({} lines)", file_rows.len()));
                }
                let listed = &file_rows[id as usize - 1];
                if listed.len() != tuple.len() {
                    return Err(format!("{what}: {name} line {id} has {} positions, {} templates", listed.len(), tuple.len()));
                }
                for (p, (cell, exp)) in listed.iter().zip(tuple).enumerate() {
                    let ok = match exp {
                        None => cell == "*",
                        Some(s) => cell == "*" || cell == s,
                    };
                    if !ok {
                        return Err(format!(
                            "{what} (features {cells:?}): {name} line {id} position {p} lists {cell:?}, the expansion of the word is {exp:?} (template {:?})",
                            spec.bigram_templates[p]
                        ));
                    }
                }
                let key = (is_user, tuple.clone());
                if let Some(prev) = by.get(&key) {
                    if *prev != id {
                        return Err(format!("{what}: context tuple {tuple:?} has id {id} here but id {prev} for another word with the same tuple"));
                    }
                } else {
                    by.insert(key, id);
                }
            }
        }
        let shared = rows.len() > by_tr.len() && by_tr.len() >= 2;
        ctx.label_if(rewritten, "rewrite_rule_fired");
        ctx.label_if(shared, "classes_shared_and_distinct");
        ctx.label_if(spec.user.is_some(), "user_lexicon");
        if shared && rewritten {
            ctx.nontrivial(&(&out.lex, &bg.left, &bg.right));
        }
        ctx.sample(|| serde_json::json!({"feature.def": spec.feature_def(), "rewrite.def": spec.rewrite.render(), "lex.csv": out.lex, "bigram.left": bg.left, "bigram.right": bg.right}));
        Ok(())
    }
}

pub fn run_c18(opts: &Opts) -> Report {
    let mut rep = Report::new("C18", "exploration");
    rep.assumptions = vec![
        "templates come from the documented grammar (%F[i], %F?[i], %t, %L[i], %L?[i], %R[i], %R?[i]) with literal prefixes, so an expanded string is never literally '*'".into(),
        "small models only (every dictionary-level case includes a CRF training run)".into(),
    ];
    let a = Templates;
    let b = Classes;
    crate::props::committed_replays(&a, opts, &mut rep);
    crate::props::committed_replays(&b, opts, &mut rep);
    run_sub(&a, opts, opts.tier.pick(8000, 150_000), &mut rep);
    run_sub(&b, opts, opts.tier.pick(3000, 50_000), &mut rep);
    rep
}

pub fn replay(id: &str, path: &Path) -> Option<i32> {
    if id == "C17" {
        crate::props::try_strict(&Rewriter, "C17", path).or_else(|| crate::props::try_strict(&BigRewriter, "C17", path))
    } else {
        crate::props::try_strict(&Templates, "C18", path).or_else(|| crate::props::try_strict(&Classes, "C18", path))
    }
}
