//! C20 — MeCab model conversion preserves the model's bigram costs.
use std::collections::BTreeMap;
use std::path::Path;

use proptest::collection::vec;
use proptest::prelude::*;
use serde::{Deserialize, Serialize};

use crate::engine::{guard, pick, run_sub, Ctx, Opts, Report, Sub, Tier};
use crate::gen::csv::{render_cell, QuoteStyle};
use crate::gen::train::bigram_side;
use crate::props::dictops::all_costs;
use crate::refmodel::tokenize_fresh;
use crate::refmodel::train::ref_expand;

#[derive(Clone, Debug, Serialize, Deserialize, PartialEq, Eq, Hash)]
pub struct MecabCase {
    pub templates: Vec<(String, String)>,
    /// features of ids 1.. in right-id.def (the right-hand id of the LEFT context word: %L templates)
    pub right_ids: Vec<Vec<String>>,
    /// features of ids 1.. in left-id.def (%R templates)
    pub left_ids: Vec<Vec<String>>,
    /// model.def lines: (weight text, feature text)
    pub model: Vec<(String, String)>,
    /// 0 => 1, 1 => 100, 2 => 700, 3 => 800.5
    pub factor: u8,
    /// error variant: 0 none, 1 remove a middle id (right), 2 remove a middle id (left), 3 malformed id line, 4 id 0 is not BOS/EOS,
    /// 5 / 6 no line for id 0 in right-id.def / left-id.def (rejected, or every defined id emitted)
    pub error: u8,
}

pub struct Conversion;

const VOC: &[&str] = &["N", "V", "A", "*", "x", "名詞", "p,q"];
const WEIGHTS: &[&str] = &["0.5", "-0.25", "1", "-1", "0", "0.0009", "-0.0009", "2.75", "-3.5", "0.001", "12", "-0.01"];

fn factor(f: u8) -> f64 {
    match f {
        0 => 1.0,
        1 => 100.0,
        2 => 700.0,
        _ => 800.5,
    }
}

fn id_line(id: usize, feats: &[String]) -> String {
    format!("{id} {}\n", feats.iter().map(|c| render_cell(c, QuoteStyle::Needed)).collect::<Vec<_>>().join(","))
}

pub struct Files {
    pub feature_def: String,
    pub right_id_def: String,
    pub left_id_def: String,
    pub model_def: String,
}

pub fn render(case: &MecabCase) -> Files {
    let mut feature_def = String::from("UNIGRAM U0:%F[0]\nUNIGRAM U1:%F[0],%F?[1]\n");
    for (l, r) in &case.templates {
        feature_def.push_str(&format!("BIGRAM {l}/{r}\n"));
    }
    let bos = vec!["BOS/EOS".to_string(), "*".to_string(), "*".to_string()];
    let side = |rows: &Vec<Vec<String>>, drop_mid: bool, bad0: bool, malformed: bool, no0: bool| {
        let mut s = String::new();
        if no0 {
            // no line for id 0 at all: the defined ids are 1..n
        } else if bad0 {
            s.push_str(&id_line(0, &["N".to_string(), "*".to_string()]));
        } else {
            s.push_str(&id_line(0, &bos));
        }
        for (i, r) in rows.iter().enumerate() {
            if drop_mid && i + 1 == (rows.len() + 1) / 2 && rows.len() >= 2 {
                continue;
            }
            if malformed && i == 0 {
                s.push_str("one\tN,V\n");
                continue;
            }
            s.push_str(&id_line(i + 1, r));
        }
        s
    };
    let right_id_def = side(&case.right_ids, case.error == 1, case.error == 4, case.error == 3, case.error == 5);
    let left_id_def = side(&case.left_ids, case.error == 2, false, false, case.error == 6);
    let mut model_def = String::from("0.125\tU0:N\n-0.5\tU1:N,V\n");
    for (w, t) in &case.model {
        model_def.push_str(&format!("{w}\t{t}\n"));
    }
    Files {
        feature_def,
        right_id_def,
        left_id_def,
        model_def,
    }
}

fn mecab_case() -> BoxedStrategy<MecabCase> {
    (
        (1usize..=8).prop_flat_map(|n| (0..n).map(|j| (bigram_side(j, 'L'), bigram_side(j, 'R'))).collect::<Vec<_>>()),
        vec(prop_oneof![8 => vec(any::<u16>(), 1..=4), 1 => vec(any::<u16>(), 11..=22)], 1..=8),
        vec(prop_oneof![8 => vec(any::<u16>(), 1..=4), 1 => vec(any::<u16>(), 11..=22)], 1..=8),
        vec((any::<u16>(), any::<u16>(), any::<u16>(), any::<u16>(), 0u8..10), 0..=40),
        0u8..4,
        prop_oneof![8 => Just(0u8), 1 => 1u8..=6],
    )
        .prop_map(|(templates, rraw, lraw, mraw, factor, error)| {
            let cells = |v: &Vec<Vec<u16>>| -> Vec<Vec<String>> {
                v.iter().map(|r| r.iter().map(|&x| VOC[pick(x, VOC.len())].to_string()).collect()).collect()
            };
            let right_ids = cells(&rraw);
            let left_ids = cells(&lraw);
            // realisable texts: expansion of template p over a right-id row / a left-id row
            let mut model: Vec<(String, String)> = vec![];
            let mut seen = std::collections::HashSet::new();
            for (a, b, c, w, kind) in mraw {
                let p = pick(a, templates.len());
                let le = ref_expand(&templates[p].0, 'L', &right_ids[pick(b, right_ids.len())], 0);
                let re = ref_expand(&templates[p].1, 'R', &left_ids[pick(c, left_ids.len())], 0);
                let text = match (kind, le, re) {
                    (0, _, _) => format!("B{p}:never/B{p}:seen"), // unrealisable on both sides
                    (3, Some(l), _) => format!("{l}/B{p}:never"),  // known left expansion, unknown right expansion
                    (4, _, Some(r)) => format!("B{p}:never/{r}"),  // unknown left expansion, known right expansion
                    (1, Some(l), _) => format!("{l}/BOS/EOS"),     // EOS context (ignored for non-zero pairs)
                    (2, _, Some(r)) => format!("BOS/EOS/{r}"),
                    (_, Some(l), Some(r)) => format!("{l}/{r}"),
                    _ => continue,
                };
                if seen.insert(text.clone()) {
                    model.push((WEIGHTS[pick(w, WEIGHTS.len())].to_string(), text));
                }
            }
            MecabCase {
                templates,
                right_ids,
                left_ids,
                model,
                factor,
                error,
            }
        })
        .boxed()
}

impl Sub for Conversion {
    type Case = MecabCase;
    fn name(&self) -> &'static str {
        "conversion"
    }
    fn max_shrink_iters(&self) -> u32 {
        1500
    }
    fn strategy(&self, _tier: Tier) -> BoxedStrategy<MecabCase> {
        mecab_case()
    }
    fn rule(&self) -> String {
        "MeCab model descriptions: feature.def with 1-8 BIGRAM templates (%L/%L?/%R/%R? with literal prefixes, column indices 0-4 and occasionally 9-12, 19-21, 100; id rows of 1-4 and occasionally 11-22 cells; UNIGRAM lines that must be ignored), left-id.def / right-id.def with id 0 = BOS/EOS and 1-8 further ids over a small vocabulary \
         incl. '*' and quoted cells, model.def with unique lines for realisable expansions (positive, negative, zero weights, weights truncating to 0 under the factor), unrealisable texts, BOS/EOS contexts and unigram lines; cost_factor ∈ {1,100,700,800.5}; \
         error variants: a removed middle id, a malformed id line, id 0 that is not BOS/EOS; oracle: the emitted files compile (raw connector) and for every pair of non-zero ids cost == Σ_p −trunc(w_p·factor) over templates applicable to both ids \
         (reference expansion), also read black-box through two-token probe sentences; id lines are 1..n dense and ascending; error variants ⇒ Err; non-trivial = a pair with ≥2 contributing templates and a pair where an optional template applies on one side only; \
         distinct = hash(input files)".into()
    }
    fn check(&self, case: &MecabCase, ctx: &mut Ctx) -> Result<(), String> {
        let f = render(case);
        let (mut br, mut bl, mut bc) = (vec![], vec![], vec![]);
        ctx.eval();
        let res = guard(|| {
            vibrato::mecab::generate_bigram_info(
                f.feature_def.as_bytes(),
                f.right_id_def.as_bytes(),
                f.left_id_def.as_bytes(),
                f.model_def.as_bytes(),
                factor(case.factor),
                &mut br,
                &mut bl,
                &mut bc,
            )
        })
        .map_err(|p| format!("generate_bigram_info: {p}; right-id.def={:?} left-id.def={:?}", f.right_id_def, f.left_id_def))?;
        // error variants
        let expect_err = match case.error {
            1 => case.right_ids.len() >= 2,
            2 => case.left_ids.len() >= 2,
            3 | 4 => true,
            _ => false,
        };
        if expect_err {
            ctx.label(&format!("error_variant_{}", case.error));
            return match res {
                Err(_) => {
                    ctx.nontrivial(&(&f.right_id_def, &f.left_id_def, case.error));
                    Ok(())
                }
                Ok(()) => Err(format!(
                    "error variant {} accepted: right-id.def={:?} left-id.def={:?}",
                    case.error, f.right_id_def, f.left_id_def
                )),
            };
        }
        if case.error >= 5 {
            // an id table without a line for id 0: an error is fine; if it is accepted, every defined id must still
            // come out (the oracle below), none may be dropped silently
            ctx.label(&format!("error_variant_{}", case.error));
            if res.is_err() {
                ctx.label("table_without_id_0_rejected");
                ctx.nontrivial(&(&f.right_id_def, &f.left_id_def, case.error));
                return Ok(());
            }
        }
        res.map_err(|e| format!("valid model description rejected: {e}"))?;
        let s = |v: Vec<u8>| String::from_utf8(v).map_err(|e| e.to_string());
        let (br, bl, bc) = (s(br)?, s(bl)?, s(bc)?);
        // ids dense and ascending
        for (name, text, n) in [("bigram.right", &br, case.right_ids.len()), ("bigram.left", &bl, case.left_ids.len())] {
            let ids: Vec<String> = text.lines().map(|l| l.split('\t').next().unwrap_or("").to_string()).collect();
            let want: Vec<String> = (1..=n).map(|i| i.to_string()).collect();
            if ids != want {
                return Err(format!("{name} lists ids {ids:?}, expected {want:?}"));
            }
        }
        // weights by feature text
        let mut weights: BTreeMap<&str, f64> = BTreeMap::new();
        for (w, t) in &case.model {
            weights.insert(t.as_str(), w.parse::<f64>().unwrap());
        }
        let fac = factor(case.factor);
        let nr = case.right_ids.len();
        let nl = case.left_ids.len();
        // dictionary: one single-character word per right id and per left id (private-use characters)
        let rch = |i: usize| char::from_u32(0xE000 + i as u32).unwrap();
        let lch = |i: usize| char::from_u32(0xE100 + i as u32).unwrap();
        let mut lex = String::new();
        for r in 1..=nr {
            lex.push_str(&format!("{},0,{r},0,R{r}\n", rch(r)));
        }
        for l in 1..=nl {
            lex.push_str(&format!("{},{l},0,0,L{l}\n", lch(l)));
        }
        let d = guard(|| {
            vibrato::SystemDictionaryBuilder::from_readers_with_bigram_info(
                lex.as_bytes(),
                br.as_bytes(),
                bl.as_bytes(),
                bc.as_bytes(),
                "DEFAULT 0 1 0\n".as_bytes(),
                "DEFAULT,0,0,30000,UNK\n".as_bytes(),
                false,
            )
        })
        .map_err(|p| format!("compiling the generated files: {p}"))?
        .map_err(|e| format!("the generated files do not compile: {e}; bigram.right={br:?} bigram.left={bl:?} bigram.cost={bc:?}"))?;
        let (dl, dr, costs) = all_costs(&d);
        if (dl, dr) != (nl + 1, nr + 1) {
            return Err(format!("compiled connector is {dr}x{dl}, id tables define {}x{}", nr + 1, nl + 1));
        }
        let tokenizer = vibrato::Tokenizer::new(d);
        let mut multi = false;
        let mut one_sided = false;
        for r in 1..=nr {
            for l in 1..=nl {
                let mut want = 0i64;
                let mut contributing = 0;
                for (tl, tr) in &case.templates {
                    let le = ref_expand(tl, 'L', &case.right_ids[r - 1], 0);
                    let re = ref_expand(tr, 'R', &case.left_ids[l - 1], 0);
                    one_sided |= le.is_some() != re.is_some();
                    if let (Some(le), Some(re)) = (le, re) {
                        if let Some(w) = weights.get(format!("{le}/{re}").as_str()) {
                            let c = -((w * fac) as i32);
                            want += i64::from(c);
                            contributing += usize::from(c != 0);
                        }
                    }
                }
                multi |= contributing >= 2;
                let got = i64::from(costs[r * dl + l]);
                ctx.eval();
                if got != want {
                    return Err(format!(
                        "cost(right id {r} {:?}, left id {l} {:?}) = {got}, the model's bigram weights give {want} (factor {fac}); templates {:?}; model.def {:?}; bigram.right={br:?} bigram.left={bl:?} bigram.cost={bc:?}",
                        case.right_ids[r - 1],
                        case.left_ids[l - 1],
                        case.templates,
                        case.model
                    ));
                }
                // black-box probe on the small models: total_cost(y) − total_cost(x) − word_cost(y)
                if nr * nl <= 16 {
                    let sent: String = [rch(r), lch(l)].iter().collect();
                    let toks = guard(|| tokenize_fresh(&tokenizer, &sent)).map_err(|p| format!("tokenize probe: {p}"))?;
                    if toks.len() == 2 && toks[0].lex_type == 0 && toks[1].lex_type == 0 {
                        let conn = i64::from(toks[1].total_cost) - i64::from(toks[0].total_cost) - i64::from(toks[1].word_cost);
                        if conn != want {
                            return Err(format!("probe sentence for (right {r}, left {l}) shows a connection cost of {conn}, expected {want}"));
                        }
                        ctx.label("black_box_probe");
                    }
                }
            }
        }
        ctx.label(&format!("factor_{}", case.factor));
        ctx.label_if(multi, "pair_with_2plus_templates");
        ctx.label_if(one_sided, "optional_applies_on_one_side_only");
        if multi && one_sided {
            ctx.nontrivial(&(&f.feature_def, &f.right_id_def, &f.left_id_def, &f.model_def, case.factor));
        }
        ctx.sample(|| serde_json::json!({"feature.def": f.feature_def, "right-id.def": f.right_id_def, "left-id.def": f.left_id_def,
            "model.def": f.model_def.lines().take(10).collect::<Vec<_>>(), "factor": fac, "bigram.cost": bc.lines().take(8).collect::<Vec<_>>()}));
        Ok(())
    }
}

pub fn run(opts: &Opts) -> Report {
    let mut rep = Report::new("C20", "exploration");
    rep.assumptions = vec![
        "id 0 is present in both id tables, ids are unique, model.def feature texts are unique and contain no '/' other than the separator (and BOS/EOS)".into(),
        "only pairs of non-zero ids are asserted, as the property states (BOS/EOS contexts are generated but not judged)".into(),
        "weights are written without exponent notation (the model.def line pattern does not accept it)".into(),
    ];
    let a = Conversion;
    crate::props::committed_replays(&a, opts, &mut rep);
    run_sub(&a, opts, opts.tier.pick(20_000, 300_000), &mut rep);
    rep
}

pub fn replay(path: &Path) -> Option<i32> {
    crate::props::try_strict(&Conversion, "C20", path)
}
