//! C11 — Lexicon CSV rows are preserved verbatim as words (round trip by construction).
use std::collections::BTreeMap;
use std::path::Path;

use proptest::collection::vec;
use proptest::prelude::*;
use serde::{Deserialize, Serialize};
use vibrato::dictionary::{LexType, WordIdx};
use vibrato::verif_hooks::lattice_dump;

use crate::engine::{guard, pick, run_sub, Ctx, Opts, Report, Sub, Tier};
use crate::gen::csv::{render_cell, QuoteStyle};
use crate::refmodel::tokens_of;

#[derive(Clone, Debug, Serialize, Deserialize, PartialEq, Eq, Hash)]
pub struct CsvRow {
    /// may be empty (row must be skipped)
    pub surface: String,
    pub left: u16,
    pub right: u16,
    pub cost: i16,
    /// raw text after the fourth comma, byte for byte (cells may be quoted)
    pub tail: String,
    /// 0 = quote surface only when needed, 1 = always quote
    pub quote_surface: bool,
    /// number of blank lines after this row
    pub blank_after: u8,
}

#[derive(Clone, Debug, Serialize, Deserialize, PartialEq, Eq, Hash)]
pub struct CsvCase {
    pub rows: Vec<CsvRow>,
    pub num_right: u16,
    pub num_left: u16,
    pub final_newline: bool,
    pub leading_blank: bool,
    pub as_user: bool,
}

pub struct Rows;

const SURF_CHARS: &[char] = &['a', 'b', 'c', ',', '"', ' ', '京', '都', 'é', '\u{1F600}', '*', '\t', '0'];
const CELLS: &[&str] = &[
    "x", "", "*", "名詞", "\"a,b\"", "\"say \"\"hi\"\"\"", "\"\"", "p q", "1/5", "\"京,都\"", "\"x\"", " lead", "trail ",
];

fn csv_case() -> BoxedStrategy<CsvCase> {
    (
        vec(
            (
                (0u8..10, any::<u16>(), vec(any::<u16>(), 1..=4)),
                any::<u16>(),
                any::<u16>(),
                prop_oneof![3 => any::<i16>(), 1 => Just(i16::MIN), 1 => Just(i16::MAX), 1 => Just(0i16)],
                vec(any::<u16>(), 0..=4),
                any::<bool>(),
                prop_oneof![5 => Just(0u8), 1 => 1u8..=2],
            ),
            1..=12,
        ),
        prop_oneof![3 => (1u16..=6, 1u16..=6), 1 => Just((65535u16, 2u16)), 1 => Just((2u16, 65535u16))],
        any::<bool>(),
        any::<bool>(),
        any::<bool>(),
    )
        .prop_map(|(raw, (nr, nl), final_newline, leading_blank, as_user)| {
            let mut rows: Vec<CsvRow> = vec![];
            for ((kind, refer, sraw), l, r, cost, cells, quote_surface, blank_after) in raw {
                let mut surface: String = sraw.iter().map(|&x| SURF_CHARS[pick(x, SURF_CHARS.len())]).collect();
                if !rows.is_empty() {
                    let j = pick(refer, rows.len());
                    match kind {
                        0 | 1 => surface = rows[j].surface.clone(),                 // homograph
                        2 => surface = format!("{}{}", rows[j].surface, surface), // extension of an earlier surface
                        3 => surface = String::new(),                              // empty surface: skipped
                        _ => {}
                    }
                } else if kind == 3 {
                    surface = String::new();
                }
                // extreme ids are reachable: the last id of each dimension is favoured
                let left = if l % 4 == 0 { nl - 1 } else { l % nl };
                let right = if r % 4 == 0 { nr - 1 } else { r % nr };
                let tail = cells.iter().map(|&c| CELLS[pick(c, CELLS.len())]).collect::<Vec<_>>().join(",");
                rows.push(CsvRow {
                    surface,
                    left,
                    right,
                    cost,
                    tail,
                    quote_surface,
                    blank_after,
                });
            }
            CsvCase {
                rows,
                num_right: nr,
                num_left: nl,
                final_newline,
                leading_blank,
                as_user,
            }
        })
        .boxed()
}

pub fn render_csv(case: &CsvCase) -> String {
    let mut out = String::new();
    if case.leading_blank {
        out.push('\n');
    }
    let n = case.rows.len();
    for (i, r) in case.rows.iter().enumerate() {
        let style = if r.quote_surface { QuoteStyle::Always } else { QuoteStyle::Needed };
        out.push_str(&render_cell(&r.surface, style));
        out.push_str(&format!(",{},{},{},{}", r.left, r.right, r.cost, r.tail));
        let last = i + 1 == n;
        if !last || case.final_newline {
            out.push('\n');
            for _ in 0..r.blank_after {
                out.push('\n');
            }
        }
    }
    out
}

impl Sub for Rows {
    type Case = CsvCase;
    fn name(&self) -> &'static str {
        "rows"
    }
    fn strategy(&self, _tier: Tier) -> BoxedStrategy<CsvCase> {
        csv_case()
    }
    fn rule(&self) -> String {
        "1-12 logical rows (surface with commas/quotes/spaces/tabs/multi-byte/astral text, homographs, extensions of earlier surfaces, empty surfaces; ids up to the last id of a 65535×2 / 2×65535 / small connector; \
         costs incl. i16::MIN/MAX; feature tails of 0-4 bare, empty or quoted cells kept verbatim) rendered with quoted or bare surfaces, blank lines (leading, between, trailing), with/without final newline, as system or user lexicon; \
         oracle: word_feature(k) == tail byte for byte for the k-th kept row, and tokenizing each surface the lattice holds, spanning the sentence, exactly the rows with that surface (ids, cost), plus every shorter-prefix row; \
         non-trivial = quoted surface, quoted feature cell, ≥2 homographs, blank line or missing final newline; distinct = hash(csv bytes)".into()
    }
    fn check(&self, case: &CsvCase, ctx: &mut Ctx) -> Result<(), String> {
        self.check_case(case, ctx)?;
        ctx.sample(|| serde_json::json!({"csv": render_csv(case), "matrix_header": format!("{} {}", case.num_right, case.num_left), "as_user": case.as_user}));
        Ok(())
    }
}

impl Rows {
    pub fn check_case(&self, case: &CsvCase, ctx: &mut Ctx) -> Result<(), String> {
        let csv = render_csv(case);
        let matrix = format!("{} {}\n", case.num_right, case.num_left);
        let chardef = "DEFAULT 0 1 0\n";
        let unk = "DEFAULT,0,0,0,UNK\n";
        let kept: Vec<&CsvRow> = case.rows.iter().filter(|r| !r.surface.is_empty()).collect();
        let built = guard(|| -> Result<vibrato::Dictionary, String> {
            if case.as_user {
                let d = vibrato::SystemDictionaryBuilder::from_readers("zzz,0,0,0,sys\n".as_bytes(), matrix.as_bytes(), chardef.as_bytes(), unk.as_bytes())
                    .map_err(|e| format!("base build: {e}"))?;
                d.reset_user_lexicon_from_reader(Some(csv.as_bytes())).map_err(|e| e.to_string())
            } else {
                vibrato::SystemDictionaryBuilder::from_readers(csv.as_bytes(), matrix.as_bytes(), chardef.as_bytes(), unk.as_bytes()).map_err(|e| e.to_string())
            }
        })
        .map_err(|p| format!("building from {csv:?}: {p}"))?;
        ctx.eval();
        let dict = match built {
            Ok(d) => d,
            Err(e) => {
                if kept.is_empty() {
                    // a lexicon without any word is rejected by the trie builder (an error value)
                    ctx.label("no_kept_rows_rejected");
                    return Ok(());
                }
                return Err(format!("well-formed CSV rejected: {e}; csv = {csv:?}"));
            }
        };
        let lex_type = if case.as_user { LexType::User } else { LexType::System };
        let lt = if case.as_user { 1u8 } else { 0u8 };
        for (k, row) in kept.iter().enumerate() {
            let f = guard(|| dict.word_feature(WordIdx { lex_type, word_id: k as u32 }).to_string())
                .map_err(|p| format!("word_feature({k}): {p}; csv = {csv:?}"))?;
            ctx.eval();
            if f != row.tail {
                return Err(format!("row {k} ({:?}): feature {f:?} != text after the fourth comma {:?}; csv = {csv:?}", row.surface, row.tail));
            }
        }
        let tokenizer = vibrato::Tokenizer::new(dict);
        let mut w = tokenizer.new_worker();
        let mut surfaces: Vec<&str> = kept.iter().map(|r| r.surface.as_str()).collect();
        surfaces.sort_unstable();
        surfaces.dedup();
        for s in &surfaces {
            let (dump, toks) = guard(|| {
                w.reset_sentence(s);
                w.tokenize();
                (lattice_dump(&w), tokens_of(&w))
            })
            .map_err(|p| format!("tokenize({s:?}): {p}"))?;
            ctx.eval();
            // expected lexicon candidates starting at 0: every kept row whose surface is a prefix
            let mut want: BTreeMap<(usize, u32, u16, u16, i32), u32> = BTreeMap::new();
            for (k, row) in kept.iter().enumerate() {
                if s.starts_with(row.surface.as_str()) {
                    *want.entry((row.surface.chars().count(), k as u32, row.left, row.right, i32::from(row.cost))).or_insert(0) += 1;
                }
            }
            let mut got: BTreeMap<(usize, u32, u16, u16, i32), u32> = BTreeMap::new();
            for n in dump.nodes.iter().filter(|n| n.start_word == 0 && n.lex_type == lt) {
                // all connection costs are 0 here, so the prefix minimum of a node starting at 0 is its word cost
                *got.entry((n.end_word, n.word_id, n.left_id, n.right_id, n.min_cost)).or_insert(0) += 1;
            }
            if got != want {
                return Err(format!(
                    "sentence {s:?}: lexicon candidates at position 0 (end, row, left, right, cost) = {got:?}, expected {want:?}; csv = {csv:?}"
                ));
            }
            if toks.iter().map(|t| t.surface.as_str()).collect::<String>() != **s {
                return Err(format!("sentence {s:?}: tokens do not cover the sentence"));
            }
        }
        let quoted_surface = case.rows.iter().any(|r| r.quote_surface || crate::gen::csv::needs_quote(&r.surface));
        let quoted_cell = case.rows.iter().any(|r| r.tail.contains('"'));
        let homographs = surfaces.len() < kept.len();
        let blanks = case.leading_blank || case.rows.iter().any(|r| r.blank_after > 0);
        ctx.label_if(quoted_surface, "quoted_surface");
        ctx.label_if(quoted_cell, "quoted_feature_cell");
        ctx.label_if(homographs, "homographs");
        ctx.label_if(blanks, "blank_lines");
        ctx.label_if(!case.final_newline, "no_final_newline");
        ctx.label_if(case.final_newline && case.rows.last().map_or(false, |r| r.blank_after > 0), "trailing_blank_lines");
        ctx.label_if(case.rows.iter().any(|r| r.surface.is_empty()), "empty_surface_row");
        ctx.label_if(case.as_user, "as_user_lexicon");
        ctx.label_if(case.num_left == 65535 || case.num_right == 65535, "extreme_ids");
        ctx.label_if(case.rows.iter().any(|r| r.tail.is_empty()), "empty_feature");
        if quoted_surface || quoted_cell || homographs || blanks || !case.final_newline {
            ctx.nontrivial(&csv);
        }
        Ok(())
    }
}

pub fn run(opts: &Opts) -> Report {
    let mut rep = Report::new("C11", "exploration");
    rep.assumptions = vec![
        "LF line ends only (CRLF belongs to C10); no line breaks inside quoted fields; no U+0000 in surfaces (rejected by the trie builder)".into(),
        "all connection costs are 0 in these dictionaries so that a node's prefix minimum exposes its word cost".into(),
    ];
    let a = Rows;
    crate::props::committed_replays(&a, opts, &mut rep);
    run_sub(&a, opts, opts.tier.pick(30_000, 500_000), &mut rep);
    let sc = crate::props::scale::RowsScale;
    crate::props::committed_replays(&sc, opts, &mut rep);
    run_sub(&sc, opts, opts.tier.pick(320, 6000), &mut rep);
    rep
}

pub fn replay(path: &Path) -> Option<i32> {
    crate::props::try_strict(&Rows, "C11", path).or_else(|| crate::props::try_strict(&crate::props::scale::RowsScale, "C11", path))
}
