//! C14 — Generated dictionary files are the exact image of the trained model.
//! C16 — The small (bigram) dictionary agrees with matrix.def up to rounding.
use std::path::Path;

use proptest::prelude::*;
use vibrato::verif_hooks as hooks;

use crate::engine::{guard, run_sub, Ctx, Opts, Report, Sub, Tier};
use crate::gen::csv::{render_cell, QuoteStyle};
use crate::gen::train::{train_spec, TrainSpec};
use crate::props::dictops::all_costs;
use crate::props::trainc::{gen_bigram, gen_dict, parse_matrix, split_lex_row, train};
use crate::refmodel::train::{ref_merge, Merged};

pub struct Image;

fn cost_ok(m: &Merged, w: f64, got: i64, near: &mut u64) -> bool {
    let want = i64::from(m.cost16(w));
    if got == want {
        return true;
    }
    if m.near_integer(w) && (got - want).abs() <= 1 {
        *near += 1;
        return true;
    }
    false
}

impl Sub for Image {
    type Case = TrainSpec;
    fn name(&self) -> &'static str {
        "image"
    }
    fn max_shrink_iters(&self) -> u32 {
        400
    }
    fn strategy(&self, _tier: Tier) -> BoxedStrategy<TrainSpec> {
        train_spec(8, true)
    }
    fn rule(&self) -> String {
        "TrainSpec: 3-14 seed rows with 1-4 feature cells (quoted cells, '*'), 1-4 categories, unk entries per category plus extras, 1-4 UNIGRAM and 1-8 BIGRAM templates (%F/%F?/%t, %L/%L?, %R/%R?), 0-3 rewrite rules per section, \
         1-6 corpus sentences (lexicon tokens plus out-of-lexicon tokens: unknown/virtual edges), optional user lexicon mixing 0,0,0 rows and explicit rows, max_iter 1-6, lambda ∈ {0.001,0.01,1}; oracle: an independent merge of the raw model \
         (weights, index tables, per-label feature-id lists read through the model-view hook) recomputes merged weights, connection classes, the matrix and max|w|; lex.csv/unk.def/matrix.def/user.csv are compared field by field \
         (row order, surface, verbatim feature, class ids, trunc(-w·32767/max|w|), every matrix cell, header dimensions, user rows trained only when 0,0,0) and must compile; non-trivial = ≥2 left and ≥2 right classes, a non-zero matrix cell and a non-zero \
         unigram weight; distinct = hash(output files)".into()
    }
    fn check(&self, spec: &TrainSpec, ctx: &mut Ctx) -> Result<(), String> {
        let mut model = match train(spec, true) {
            Ok(m) => m,
            Err(e) if crate::props::trainc::is_timeout(&e, ctx) => return Ok(()),
            Err(e) => return Err(e),
        };
        let view = guard(|| hooks::train::model_view(&mut model))
            .map_err(|p| format!("model_view: {p}"))?
            .map_err(|e| format!("model_view: {e}"))?;
        if !ctx.strict && crate::props::trainc::known_empty_bigram_table(&mut model)? {
            ctx.count("excluded_by_known_finding_empty_bigram_table_with_user_lexicon", 1);
            return Ok(());
        }
        let m = ref_merge(&view);
        let out = gen_dict(&mut model)?;
        ctx.eval();
        let nlex = spec.lex.len();
        let nl = m.left_lists.len() + 1;
        let nr = m.right_lists.len() + 1;
        let mut near = 0u64;
        // --- lex.csv
        let lines: Vec<&str> = out.lex.lines().collect();
        if lines.len() != nlex {
            return Err(format!("lex.csv has {} rows for {nlex} seed rows", lines.len()));
        }
        for (i, line) in lines.iter().enumerate() {
            let (surface, l, r, c, tail) = split_lex_row(line)?;
            let seed = &spec.lex[i];
            if surface != seed.surface || tail != seed.feature() {
                return Err(format!("lex.csv row {i}: surface/feature {surface:?}/{tail:?} differ from the seed row {:?}/{:?}", seed.surface, seed.feature()));
            }
            if !line.starts_with(&render_cell(&seed.surface, QuoteStyle::Needed)) {
                return Err(format!("lex.csv row {i}: surface is not re-quoted as a CSV cell: {line:?}"));
            }
            if l != m.left_id[i] || r != m.right_id[i] {
                return Err(format!("lex.csv row {i} ({surface:?}): ids ({l},{r}) != merged connection classes ({},{})", m.left_id[i], m.right_id[i]));
            }
            if l as usize >= nl || r as usize >= nr {
                return Err(format!("lex.csv row {i}: id ({l},{r}) outside the matrix dimensions {nr}x{nl}"));
            }
            if !(i64::from(i16::MIN)..=i64::from(i16::MAX)).contains(&c) || !cost_ok(&m, m.weight[i], c, &mut near) {
                return Err(format!("lex.csv row {i} ({surface:?}): cost {c} != trunc(-w*32767/max|w|) = {} (w={}, max|w|={})", m.cost16(m.weight[i]), m.weight[i], m.max_abs));
            }
        }
        // --- unk.def: grouped in char.def category order, file order within a category
        let mut order = vec![];
        for c in 0..spec.cats.len() {
            for (k, (cat, _)) in spec.unk.iter().enumerate() {
                if *cat == c {
                    order.push(k);
                }
            }
        }
        let ulines: Vec<&str> = out.unk.lines().collect();
        if ulines.len() != order.len() {
            return Err(format!("unk.def has {} rows for {} seed unknown entries", ulines.len(), order.len()));
        }
        for (j, (&k, line)) in order.iter().zip(&ulines).enumerate() {
            let (cat, cells) = &spec.unk[k];
            let feat = cells.iter().map(|c| render_cell(c, QuoteStyle::Needed)).collect::<Vec<_>>().join(",");
            let (name, l, r, c, tail) = split_lex_row(line)?;
            let idx = nlex + j;
            if name != spec.cats[*cat].name || tail != feat {
                return Err(format!("unk.def row {j}: {line:?} is not the entry {:?},{feat:?} expected at this position (category order)", spec.cats[*cat].name));
            }
            if l != m.left_id[idx] || r != m.right_id[idx] || !cost_ok(&m, m.weight[idx], c, &mut near) {
                return Err(format!(
                    "unk.def row {j}: ({l},{r},{c}) != merged ({},{},{})",
                    m.left_id[idx],
                    m.right_id[idx],
                    m.cost16(m.weight[idx])
                ));
            }
        }
        // --- matrix.def
        let (hr, hl, cells) = parse_matrix(&out.matrix)?;
        if (hr, hl) != (nr, nl) {
            return Err(format!("matrix.def header {hr} {hl} != (right classes+1, left classes+1) = {nr} {nl}"));
        }
        let mut dense = vec![vec![0i64; nl]; nr];
        let mut seen = std::collections::HashSet::new();
        for (r, l, c) in cells {
            if r >= nr || l >= nl {
                return Err(format!("matrix.def cell ({r},{l}) outside {nr}x{nl}"));
            }
            if !seen.insert((r, l)) {
                return Err(format!("matrix.def lists cell ({r},{l}) twice"));
            }
            dense[r][l] = c;
        }
        let mut nonzero_cell = false;
        for r in 0..nr {
            for l in 0..nl {
                let w = m.matrix[r].get(&(l as u32)).copied().unwrap_or(0.0);
                if !cost_ok(&m, w, dense[r][l], &mut near) {
                    return Err(format!("matrix.def cell ({r},{l}) = {} != trunc(-w*32767/max|w|) = {} (w={w})", dense[r][l], m.cost16(w)));
                }
                nonzero_cell |= dense[r][l] != 0;
            }
        }
        // --- user.csv
        let user_rows = spec.user.as_deref().unwrap_or(&[]);
        let user_lines: Vec<&str> = out.user.lines().collect();
        if user_lines.len() != user_rows.len() || view.user_entries.len() != user_rows.len() {
            return Err(format!("user.csv has {} rows for {} user rows", user_lines.len(), user_rows.len()));
        }
        let mut user_compilable = true;
        for (i, (row, line)) in user_rows.iter().zip(&user_lines).enumerate() {
            let (surface, l, r, c, tail) = split_lex_row(line)?;
            let feat = row.cells.iter().map(|c| render_cell(c, QuoteStyle::Needed)).collect::<Vec<_>>().join(",");
            if surface != row.surface || tail != feat {
                return Err(format!("user.csv row {i}: surface/feature changed: {line:?}"));
            }
            if (row.left, row.right, row.cost) == (0, 0, 0) {
                let idx = (view.user_entries[i].5 - 1) as usize;
                if l != m.left_id[idx] || r != m.right_id[idx] || !cost_ok(&m, m.weight[idx], c, &mut near) {
                    return Err(format!(
                        "user.csv row {i} (given as 0,0,0): ({l},{r},{c}) != trained ({},{},{})",
                        m.left_id[idx],
                        m.right_id[idx],
                        m.cost16(m.weight[idx])
                    ));
                }
            } else {
                if (l, r, c) != (u32::from(row.left), u32::from(row.right), i64::from(row.cost)) {
                    return Err(format!("user.csv row {i} had explicit parameters ({},{},{}) but was written as ({l},{r},{c})", row.left, row.right, row.cost));
                }
                user_compilable &= (l as usize) < nl && (r as usize) < nr;
            }
        }
        // --- the files compile
        let d = guard(|| vibrato::SystemDictionaryBuilder::from_readers(out.lex.as_bytes(), out.matrix.as_bytes(), spec.char_def().as_bytes(), out.unk.as_bytes()))
            .map_err(|p| format!("compiling the emitted files: {p}"))?
            .map_err(|e| format!("the emitted files do not compile: {e}"))?;
        if user_compilable && !user_rows.is_empty() {
            guard(|| d.reset_user_lexicon_from_reader(Some(out.user.as_bytes())).map(|_| ()))
                .map_err(|p| format!("loading the emitted user.csv: {p}"))?
                .map_err(|e| format!("the emitted user.csv does not load: {e}"))?;
        }
        ctx.count("near_integer_allowance_used", near);
        ctx.label_if(!user_rows.is_empty(), "user_lexicon");
        ctx.label_if(user_rows.iter().any(|r| (r.left, r.right, r.cost) == (0, 0, 0)), "user_row_000");
        ctx.label_if(user_rows.iter().any(|r| (r.left, r.right, r.cost) != (0, 0, 0)), "user_row_explicit");
        ctx.label_if(m.max_abs == 0.0, "all_weights_zero");
        ctx.label_if(view.feature_sets.len() > nlex + order.len() + user_rows.len(), "virtual_edges");
        if nl >= 3 && nr >= 3 && nonzero_cell && m.weight.iter().any(|w| *w != 0.0) {
            ctx.nontrivial(&(&out.lex, &out.matrix, &out.unk, &out.user));
        }
        ctx.sample(|| serde_json::json!({"lex.csv": out.lex, "matrix.def": out.matrix.lines().take(8).collect::<Vec<_>>(), "unk.def": out.unk, "user.csv": out.user,
            "feature.def": spec.feature_def(), "classes": format!("{nr}x{nl}")}));
        Ok(())
    }
}

// ---------------------------------------------------------------------------------------------
// C16

pub struct SmallDic;

impl Sub for SmallDic {
    type Case = TrainSpec;
    fn name(&self) -> &'static str {
        "smalldic"
    }
    fn max_shrink_iters(&self) -> u32 {
        400
    }
    fn strategy(&self, _tier: Tier) -> BoxedStrategy<TrainSpec> {
        train_spec(10, true)
            .prop_map(|mut spec| {
                // in two thirds of the cases with a user lexicon: a user row with explicit parameters whose merged weight
                // tends to be the largest of the model (the two files must still be scaled alike)
                if spec.max_iter % 3 != 0 {
                    spec.add_weight_raising_user_row(true);
                }
                spec
            })
            .boxed()
    }
    fn rule(&self) -> String {
        "TrainSpec with K = 1-10 BIGRAM templates (so the dual connector's <8, 8 and >8 cases occur), trained, then matrix.def and bigram.left/right/cost emitted and compiled into three dictionaries (matrix, raw, dual) with the emitted lexicon; \
         oracle (differential with derived tolerance): for EVERY id pair incl. id 0, |bigram cost − matrix cost| ≤ K+1 for the raw connector and, wherever every partial sum over template positions fits 16 bits (C07's proviso), for the dual connector; numbers of left/right ids equal across the three; every id used in lex.csv/unk.def inside them; \
         non-trivial = a pair with non-zero cost in both representations and a BOS or EOS pair with non-zero cost; distinct = hash(matrix.def, bigram files)".into()
    }
    fn check(&self, spec: &TrainSpec, ctx: &mut Ctx) -> Result<(), String> {
        let mut model = match train(spec, true) {
            Ok(m) => m,
            Err(e) if crate::props::trainc::is_timeout(&e, ctx) => return Ok(()),
            Err(e) => return Err(e),
        };
        if !ctx.strict && crate::props::trainc::known_empty_bigram_table(&mut model)? {
            ctx.count("excluded_by_known_finding_empty_bigram_table_with_user_lexicon", 1);
            return Ok(());
        }
        let out = gen_dict(&mut model)?;
        let bg = gen_bigram(&mut model)?;
        let k = spec.bigram_templates.len() as i64;
        let chardef = spec.char_def();
        let dm = guard(|| vibrato::SystemDictionaryBuilder::from_readers(out.lex.as_bytes(), out.matrix.as_bytes(), chardef.as_bytes(), out.unk.as_bytes()))
            .map_err(|p| format!("compiling with matrix.def: {p}"))?
            .map_err(|e| format!("matrix dictionary does not compile: {e}"))?;
        let (ml, mr, mc) = all_costs(&dm);
        let mut nontrivial = false;
        // Reference reading of the emitted bigram files: where a partial sum over template positions can leave
        // 16 bits, the dual connector's pre-summed part may be clamped — C07 limits the dual connector's exactness
        // to sums that fit, and which templates are pre-summed depends on hash order, so such a pair can agree in one
        // process and differ in the next. C16's dual clause is read with C07's proviso: those pairs are asserted for the
        // raw connector only (counted; DESIGN 9).
        let emitted = crate::gen::bigram::BigramModel {
            right_rows: bg.right.lines().map(|l| crate::gen::csv::split_record(l.split_once('\t').map_or("", |x| x.1))).collect(),
            left_rows: bg.left.lines().map(|l| crate::gen::csv::split_record(l.split_once('\t').map_or("", |x| x.1))).collect(),
            costs: bg
                .cost
                .lines()
                .filter_map(|l| {
                    let (f, c) = l.rsplit_once('\t')?;
                    let (a, b) = f.split_once('/')?;
                    Some((a.to_string(), b.to_string(), c.parse::<i32>().ok()?))
                })
                .collect(),
        };
        let fits16 = crate::refmodel::RefConn::from_bigram(&emitted).fits16;
        for dual in [false, true] {
            let db = guard(|| {
                vibrato::SystemDictionaryBuilder::from_readers_with_bigram_info(
                    out.lex.as_bytes(),
                    bg.right.as_bytes(),
                    bg.left.as_bytes(),
                    bg.cost.as_bytes(),
                    chardef.as_bytes(),
                    out.unk.as_bytes(),
                    dual,
                )
            })
            .map_err(|p| format!("compiling the bigram files (dual={dual}): {p}; bigram.right={:?} bigram.left={:?} bigram.cost={:?}", bg.right, bg.left, bg.cost))?
            .map_err(|e| format!("the bigram files do not compile (dual={dual}): {e}; lex={:?} bigram.right={:?} bigram.left={:?}", out.lex, bg.right, bg.left))?;
            let (bl, br, bc) = guard(|| all_costs(&db)).map_err(|p| format!("bigram connector cost (dual={dual}): {p}"))?;
            if (bl, br) != (ml, mr) {
                return Err(format!("bigram files describe {br} right / {bl} left ids (dual={dual}), matrix.def {mr} / {ml}"));
            }
            let mut both_nonzero = false;
            let mut edge_nonzero = false;
            for r in 0..mr {
                for l in 0..ml {
                    ctx.eval();
                    let (a, b) = (i64::from(bc[r * ml + l]), i64::from(mc[r * ml + l]));
                    if dual && !fits16.get(r).and_then(|row| row.get(l)).copied().unwrap_or(true) {
                        ctx.count("dual_pairs_not_asserted_partial_sum_beyond_16_bits", 1);
                        continue;
                    }
                    if (a - b).abs() > k + 1 {
                        return Err(format!(
                            "cost(right {r}, left {l}): bigram files give {a} (dual={dual}), matrix.def gives {b}; K={k} allows a difference of {}; bigram.cost={:?}",
                            k + 1,
                            bg.cost
                        ));
                    }
                    both_nonzero |= a != 0 && b != 0 && r != 0 && l != 0;
                    edge_nonzero |= (r == 0 || l == 0) && a != 0 && b != 0;
                }
            }
            nontrivial |= both_nonzero && edge_nonzero;
            ctx.label_if(edge_nonzero, "bos_eos_pair_nonzero");
        }
        ctx.label(match k {
            0..=7 => "K_lt8",
            8 => "K_8",
            _ => "K_gt8",
        });
        ctx.label_if(spec.user.is_some(), "user_lexicon");
        if nontrivial {
            ctx.nontrivial(&(&out.matrix, &bg.left, &bg.right, &bg.cost));
        }
        ctx.sample(|| serde_json::json!({"K": k, "matrix.def": out.matrix.lines().take(6).collect::<Vec<_>>(), "bigram.left": bg.left, "bigram.right": bg.right,
            "bigram.cost": bg.cost.lines().take(8).collect::<Vec<_>>()}));
        Ok(())
    }
}

pub fn run_c14(opts: &Opts) -> Report {
    let mut rep = Report::new("C14", "exploration");
    rep.assumptions = vec![
        "model sizes are small (≤14 seed rows, ≤8 templates) because every case includes a CRF training run".into(),
        "costs are compared exactly; a ±1 allowance applies only when the scaled value is within 1e-6 of an integer (counted)".into(),
        "user rows with explicit ids outside the emitted matrix are copied unchanged, and then only the system files are required to compile".into(),
        "whether the trained weights are good is outside the property".into(),
    ];
    let a = Image;
    crate::props::committed_replays(&a, opts, &mut rep);
    run_sub(&a, opts, opts.tier.pick(4000, 60_000), &mut rep);
    rep
}

pub fn run_c16(opts: &Opts) -> Report {
    let mut rep = Report::new("C16", "exploration");
    rep.assumptions = vec![
        "tolerance K+1 is derived (one truncation per template plus one for the matrix cell), not tuned".into(),
        "the dual connector is asserted only where every partial sum of the emitted costs fits 16 bits (C07's proviso; its template split depends on hash order)".into(),
        "small models only (every case includes a CRF training run)".into(),
    ];
    let a = SmallDic;
    crate::props::committed_replays(&a, opts, &mut rep);
    run_sub(&a, opts, opts.tier.pick(3000, 50_000), &mut rep);
    rep
}

pub fn replay(id: &str, path: &Path) -> Option<i32> {
    if id == "C14" {
        crate::props::try_strict(&Image, "C14", path)
    } else {
        crate::props::try_strict(&SmallDic, "C16", path)
    }
}
