pub mod engine;
pub mod gen;
pub mod props;
pub mod refmodel;
