use std::path::PathBuf;

use vverif::engine::{install_panic_hook, start_watchdog, Opts, Tier};

fn main() {
    let args: Vec<String> = std::env::args().skip(1).collect();
    if args.is_empty() {
        eprintln!("usage: vcheck <ID> [--tier quick|thorough] [--seed N] [--replay FILE]");
        std::process::exit(2);
    }
    let id: &'static str = Box::leak(args[0].clone().into_boxed_str());
    let mut tier = match std::env::var("VERIF_TIER").as_deref() {
        Ok("thorough") => Tier::Thorough,
        _ => Tier::Quick,
    };
    let mut seed: u64 = std::env::var("VERIF_SEED")
        .ok()
        .and_then(|s| s.trim().parse::<i128>().ok())
        .map(|v| v as u64)
        .unwrap_or(0);
    let mut replay: Option<PathBuf> = None;
    let mut xemit: Option<PathBuf> = None;
    let mut xconsume: Option<PathBuf> = None;
    let mut i = 1;
    while i < args.len() {
        match args[i].as_str() {
            "--tier" => {
                i += 1;
                tier = if args[i] == "thorough" { Tier::Thorough } else { Tier::Quick };
            }
            "--seed" => {
                i += 1;
                seed = args[i].parse::<i128>().map(|v| v as u64).unwrap_or(0);
            }
            "--replay" => {
                i += 1;
                replay = Some(PathBuf::from(&args[i]));
            }
            "--xbuild-emit" => {
                i += 1;
                xemit = Some(PathBuf::from(&args[i]));
            }
            "--xbuild-consume" => {
                i += 1;
                xconsume = Some(PathBuf::from(&args[i]));
            }
            other => {
                eprintln!("unknown argument {other}");
                std::process::exit(2);
            }
        }
        i += 1;
    }
    let threads = std::env::var("VERIF_THREADS")
        .ok()
        .and_then(|s| s.parse().ok())
        .unwrap_or_else(|| std::thread::available_parallelism().map(|n| n.get()).unwrap_or(8).min(16));
    let scale = std::env::var("VERIF_SCALE").ok().and_then(|s| s.parse().ok()).unwrap_or(1.0);
    let verif_dir = PathBuf::from(std::env::var("VERIF_DIR").unwrap_or_else(|_| "/verif".into()));
    install_panic_hook();
    vverif::gen::csv::self_test();

    if let Some(dir) = xemit.as_ref().or(xconsume.as_ref()) {
        let n = if tier == Tier::Quick { 60 } else { 600 };
        match vverif::props::xbuild(id, xemit.is_some(), dir, seed, n) {
            Ok(()) => std::process::exit(0),
            Err(e) => {
                println!("INCONCLUSIVE property={id} cross-build exchange: {e}");
                std::process::exit(2);
            }
        }
    }

    if let Some(path) = replay {
        match vverif::props::replay(id, &path) {
            Some(code) => std::process::exit(code),
            None => {
                println!("INCONCLUSIVE property={id} cannot interpret replay {}", path.display());
                std::process::exit(2);
            }
        }
    }

    let opts = Opts { tier, seed, threads, verif_dir, scale, replay: None };
    start_watchdog(if tier == Tier::Quick { 1500 } else { 6 * 3600 }, id);
    let Some(mut report) = vverif::props::run(id, &opts) else {
        println!("INCONCLUSIVE unknown property {id}");
        std::process::exit(2);
    };
    report.absorb_fuzz_results();
    report.write_evidence(&opts);
    for k in &report.known_findings {
        println!("KNOWN-FINDING: property={id} {k}");
    }
    for n in &report.notes {
        println!("NOTE property={id} {n}");
    }
    println!(
        "SUMMARY property={id} tier={} seed={} evaluations={} distinct_nontrivial={} violations={} wall_s={:.1}",
        tier.name(),
        seed,
        report.evaluations,
        report.nontrivial,
        report.violations.len(),
        report.started.elapsed().as_secs_f64()
    );
    if !report.violations.is_empty() {
        for v in &report.violations {
            println!("REASON property={id} sub={} {}", v.sub, v.reason.replace('\n', " "));
            println!("VIOLATION property={id} replay={}", v.replay.display());
        }
        std::process::exit(1);
    }
}
