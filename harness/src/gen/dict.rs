//! `DictSpec`: logical specification of a dictionary, its proptest strategy and its rendering
//! into definition files (DESIGN 3.1).
use proptest::collection::vec;
use proptest::prelude::*;
use serde::{Deserialize, Serialize};

use crate::engine::pick;
use crate::gen::bigram::{bigram_model, BigramModel, Regime};
use crate::gen::csv::{render_cell, QuoteStyle};

/// Characters used in surfaces and sentences: 1-, 2-, 3- and 4-byte UTF-8 and table edges.
pub const ALPHABET: &[char] = &[
    'a', 'b', 'c', 'd', 'e', 'f', '0', '1', '2', ' ', '\t', '\u{3000}', 'é', 'ß', 'あ', 'い', 'ア',
    '京', '都', '東', '\u{FFFE}', '\u{FFFF}', '\u{10000}', '\u{1F600}', '\u{10FFFF}', '\u{1}',
];

#[derive(Clone, Debug, Serialize, Deserialize, PartialEq, Eq, Hash)]
pub struct CatSpec {
    pub name: String,
    pub invoke: bool,
    pub group: bool,
    pub length: u8,
}

#[derive(Clone, Debug, Serialize, Deserialize, PartialEq, Eq, Hash)]
pub struct RangeSpec {
    pub start: u32,
    pub end: u32,
    /// Indices into `CharDef::cats`; the first is the primary category.
    pub cats: Vec<usize>,
}

#[derive(Clone, Debug, Serialize, Deserialize, PartialEq, Eq, Hash)]
pub struct CharDef {
    /// `cats[0]` is DEFAULT. Category ids are the indices.
    pub cats: Vec<CatSpec>,
    pub ranges: Vec<RangeSpec>,
    /// Rendering noise: 0 = plain, 1 = comments/blank lines/tabs, 2 = DEFAULT line placed last
    /// among category lines (ids are unaffected: DEFAULT is always id 0).
    pub style: u8,
}

#[derive(Clone, Debug, Serialize, Deserialize, PartialEq, Eq, Hash)]
pub struct UnkRow {
    pub cat: usize,
    pub left: u16,
    pub right: u16,
    pub cost: i16,
    pub feature: String,
}

#[derive(Clone, Debug, Serialize, Deserialize, PartialEq, Eq, Hash)]
pub struct LexRow {
    pub surface: String,
    pub left: u16,
    pub right: u16,
    pub cost: i16,
    pub feature: String,
}

#[derive(Clone, Debug, Serialize, Deserialize, PartialEq, Eq, Hash)]
pub struct MatrixSpec {
    pub num_right: u16,
    pub num_left: u16,
    /// (right id, left id, cost); later duplicates override earlier ones (file order).
    pub cells: Vec<(u16, u16, i16)>,
}

#[derive(Clone, Debug, Serialize, Deserialize, PartialEq, Eq, Hash)]
pub enum ConnSpec {
    Matrix(MatrixSpec),
    Bigram { model: BigramModel, dual: bool },
}

impl ConnSpec {
    pub fn num_right(&self) -> usize {
        match self {
            ConnSpec::Matrix(m) => usize::from(m.num_right),
            ConnSpec::Bigram { model, .. } => model.right_rows.len() + 1,
        }
    }
    pub fn num_left(&self) -> usize {
        match self {
            ConnSpec::Matrix(m) => usize::from(m.num_left),
            ConnSpec::Bigram { model, .. } => model.left_rows.len() + 1,
        }
    }
    pub fn kind(&self) -> &'static str {
        match self {
            ConnSpec::Matrix(_) => "matrix",
            ConnSpec::Bigram { dual: false, .. } => "raw",
            ConnSpec::Bigram { dual: true, .. } => "dual",
        }
    }
}

#[derive(Clone, Debug, Serialize, Deserialize, PartialEq, Eq, Hash)]
pub struct DictSpec {
    pub chardef: CharDef,
    pub unk: Vec<UnkRow>,
    pub lex: Vec<LexRow>,
    pub conn: ConnSpec,
    /// CSV rendering style of lex.csv / unk.def (0 = minimal quoting, 1 = always quote surface).
    pub csv_style: u8,
}

#[derive(Clone, Debug, Serialize, Deserialize, PartialEq, Eq, Hash, Default)]
pub struct TokOpts {
    pub ignore_space: bool,
    pub max_grouping_len: usize,
    /// How the options are put in place (the final values are the two fields above):
    /// 0 = each setter called once on a fresh tokenizer; other values select a history of earlier
    /// setter calls with other values and the order of the setters (see `refmodel::make_tokenizer_h`).
    #[serde(default)]
    pub history: u8,
}

// ---------------------------------------------------------------------------------------------
// Rendering

impl CharDef {
    pub fn render(&self) -> String {
        let mut out = String::new();
        let noisy = self.style == 1;
        if noisy {
            out.push_str("# generated char.def\n\n");
        }
        let mut order: Vec<usize> = (0..self.cats.len()).collect();
        if self.style == 2 && order.len() > 1 {
            // DEFAULT written last; other categories keep their relative order and thus their ids.
            order.rotate_left(1);
        }
        for &i in &order {
            let c = &self.cats[i];
            let sep = if noisy && i % 2 == 1 { "\t " } else { " " };
            out.push_str(&format!(
                "{}{sep}{}{sep}{}{sep}{}",
                c.name,
                u8::from(c.invoke),
                u8::from(c.group),
                c.length
            ));
            if noisy && i % 3 == 0 {
                out.push_str("  # a comment");
            }
            out.push('\n');
        }
        if noisy {
            out.push_str("\n  # ranges\n");
        }
        for (k, r) in self.ranges.iter().enumerate() {
            if r.start == r.end && (k % 2 == 0 || !noisy) {
                out.push_str(&format!("0x{:04X}", r.start));
            } else {
                out.push_str(&format!("0x{:04X}..0x{:04X}", r.start, r.end));
            }
            for &c in &r.cats {
                out.push(' ');
                out.push_str(&self.cats[c].name);
            }
            if noisy && k % 2 == 0 {
                out.push_str(" # trailing comment");
            }
            out.push('\n');
        }
        out
    }
}

pub fn render_lex_rows(rows: &[LexRow], style: u8) -> String {
    let mut out = String::new();
    for r in rows {
        let q = if style == 1 {
            QuoteStyle::Always
        } else {
            QuoteStyle::Needed
        };
        out.push_str(&render_cell(&r.surface, q));
        out.push_str(&format!(",{},{},{},{}\n", r.left, r.right, r.cost, r.feature));
    }
    out
}

impl MatrixSpec {
    pub fn render(&self) -> String {
        let mut out = format!("{} {}\n", self.num_right, self.num_left);
        for &(r, l, c) in &self.cells {
            out.push_str(&format!("{r} {l} {c}\n"));
        }
        out
    }
}

/// The text files a dictionary is built from.
#[derive(Clone, Debug, Serialize, Deserialize, PartialEq, Eq, Hash)]
pub struct DictFiles {
    pub lex: String,
    pub chardef: String,
    pub unk: String,
    pub conn: ConnFiles,
}

#[derive(Clone, Debug, Serialize, Deserialize, PartialEq, Eq, Hash)]
pub enum ConnFiles {
    Matrix(String),
    Bigram {
        right: String,
        left: String,
        cost: String,
        dual: bool,
    },
}

impl DictSpec {
    pub fn render(&self) -> DictFiles {
        let mut unk = String::new();
        for u in &self.unk {
            unk.push_str(&format!(
                "{},{},{},{},{}\n",
                self.chardef.cats[u.cat].name, u.left, u.right, u.cost, u.feature
            ));
        }
        DictFiles {
            lex: render_lex_rows(&self.lex, self.csv_style),
            chardef: self.chardef.render(),
            unk,
            conn: match &self.conn {
                ConnSpec::Matrix(m) => ConnFiles::Matrix(m.render()),
                ConnSpec::Bigram { model, dual } => {
                    let (right, left, cost) = model.render();
                    ConnFiles::Bigram {
                        right,
                        left,
                        cost,
                        dual: *dual,
                    }
                }
            },
        }
    }
}

impl DictFiles {
    pub fn build(&self) -> vibrato::errors::Result<vibrato::Dictionary> {
        match &self.conn {
            ConnFiles::Matrix(m) => vibrato::SystemDictionaryBuilder::from_readers(
                self.lex.as_bytes(),
                m.as_bytes(),
                self.chardef.as_bytes(),
                self.unk.as_bytes(),
            ),
            ConnFiles::Bigram {
                right,
                left,
                cost,
                dual,
            } => vibrato::SystemDictionaryBuilder::from_readers_with_bigram_info(
                self.lex.as_bytes(),
                right.as_bytes(),
                left.as_bytes(),
                cost.as_bytes(),
                self.chardef.as_bytes(),
                self.unk.as_bytes(),
                *dual,
            ),
        }
    }
}

// ---------------------------------------------------------------------------------------------
// Strategies

/// Code points usable as range bounds: alphabet members in the BMP and their neighbours.
pub fn range_points() -> Vec<u32> {
    let mut v = vec![];
    for &c in ALPHABET {
        let u = c as u32;
        if u <= 0xFFFF {
            for d in [-1i64, 0, 1] {
                let x = i64::from(u) + d;
                if (0..=0xFFFF).contains(&x) {
                    v.push(x as u32);
                }
            }
        }
    }
    v.push(0x3040);
    v.push(0x309F);
    v.sort_unstable();
    v.dedup();
    v
}

#[derive(Clone, Copy, Debug, PartialEq, Eq)]
pub enum SpaceMode {
    /// SPACE category may or may not exist; no constraint.
    Free,
    /// C12 precondition: SPACE exists, is assigned alone to the space code points, no other range
    /// mentions it, and no surface contains a space character.
    Exclusive,
}

pub const SPACE_CHARS: &[char] = &[' ', '\u{3000}', '\t'];

fn cat_spec(name: String) -> impl Strategy<Value = CatSpec> {
    // length biased to 0..=3, with 15 as the extreme.
    (any::<bool>(), any::<bool>(), prop_oneof![4 => 0u8..=3, 1 => 4u8..=15]).prop_map(
        move |(invoke, group, length)| CatSpec {
            name: name.clone(),
            invoke,
            group,
            length,
        },
    )
}

pub fn chardef(space: SpaceMode, max_cats: usize) -> BoxedStrategy<CharDef> {
    let points = range_points();
    let npts = points.len();
    (
        1usize..=max_cats,
        any::<bool>(),
        vec((any::<bool>(), any::<bool>(), prop_oneof![4 => 0u8..=3, 1 => 4u8..=15]), 18),
        vec(
            (any::<u16>(), any::<u16>(), vec(any::<u16>(), 1..=3), 0u8..4),
            0..=12,
        ),
        0u8..3,
        vec(any::<u16>(), 3),
        // categories beyond the 18 assignable ones (declared, never attached to a character):
        // none (3/4), 1-14, or enough to approach the 255-category limit
        (prop_oneof![12 => Just(0usize), 3 => 1usize..=14, 1 => 200usize..=236], any::<bool>()),
    )
        .prop_map(move |(ncats, want_space, infos, raw_ranges, style, space_pick, (extra, late_space))| {
            let want_space = want_space || space == SpaceMode::Exclusive;
            // extras only make sense once all 18 assignable ids are taken
            let extra = if max_cats >= 18 { extra } else { 0 };
            let ncats = if extra > 0 { 18 } else { ncats };
            let late_space = late_space && extra > 0 && want_space && space == SpaceMode::Free;
            let mut cats = vec![];
            for (i, (invoke, group, length)) in infos.iter().take(ncats).enumerate() {
                let name = if i == 0 {
                    "DEFAULT".to_string()
                } else {
                    format!("K{i}")
                };
                cats.push(CatSpec {
                    name,
                    invoke: *invoke,
                    group: *group,
                    length: *length,
                });
            }
            let mut space_idx = None;
            if want_space && !late_space {
                if cats.len() >= 2 && space == SpaceMode::Free {
                    let i = 1 + pick(space_pick[0], cats.len() - 1);
                    cats[i].name = "SPACE".to_string();
                    space_idx = Some(i);
                } else {
                    let (invoke, group, length) = infos[17];
                    if cats.len() >= 18 {
                        cats.pop();
                    }
                    cats.push(CatSpec {
                        name: "SPACE".to_string(),
                        invoke,
                        group,
                        length,
                    });
                    space_idx = Some(cats.len() - 1);
                }
            }
            // only the first 18 categories can be attached to characters
            let assignable = cats.len();
            for j in 0..extra {
                let (invoke, group, length) = infos[j % infos.len()];
                let name = if late_space && j == usize::from(space_pick[2]) % extra { "SPACE".to_string() } else { format!("X{}", 18 + j) };
                cats.push(CatSpec { name, invoke, group, length });
            }
            let mut ranges = vec![];
            for (a, b, cs, shape) in raw_ranges {
                let i = pick(a, npts);
                let (start, end) = match shape {
                    0 => (points[i], points[i]), // single point
                    1 => {
                        let j = (i + 1 + pick(b, 3)).min(npts - 1);
                        (points[i], points[j]) // short range
                    }
                    _ => {
                        let j = pick(b, npts);
                        (points[i.min(j)], points[i.max(j)])
                    }
                };
                let mut rc: Vec<usize> = cs.iter().map(|&c| pick(c, assignable)).collect();
                rc.dedup();
                if space == SpaceMode::Exclusive {
                    let sp = space_idx.unwrap();
                    rc.retain(|&c| c != sp);
                    if rc.is_empty() {
                        continue;
                    }
                    // A range must not cover a space code point with a non-SPACE class after the
                    // SPACE lines; the SPACE lines are appended last below, so any range is fine.
                }
                ranges.push(RangeSpec {
                    start,
                    end,
                    cats: rc,
                });
            }
            if space == SpaceMode::Exclusive {
                let sp = space_idx.unwrap();
                let n = 1 + pick(space_pick[1], SPACE_CHARS.len());
                for &c in SPACE_CHARS.iter().take(n) {
                    ranges.push(RangeSpec {
                        start: c as u32,
                        end: c as u32,
                        cats: vec![sp],
                    });
                }
            }
            CharDef {
                cats,
                ranges,
                style,
            }
        })
        .boxed()
}

pub fn surface(exclude_space: bool) -> BoxedStrategy<String> {
    vec(any::<u16>(), 1..=5)
        .prop_map(move |raw| {
            let mut s = String::new();
            for r in raw {
                let mut c = ALPHABET[pick(r, ALPHABET.len())];
                if exclude_space && SPACE_CHARS.contains(&c) {
                    c = 'a';
                }
                s.push(c);
            }
            s
        })
        .boxed()
}

#[derive(Clone, Copy, Debug, PartialEq, Eq)]
pub enum CostRegime {
    /// Full i16 range.
    Full,
    /// -3..=3 (many ties).
    Narrow,
    /// -300..=300
    Medium,
}

pub fn cost_regime() -> impl Strategy<Value = CostRegime> {
    prop_oneof![
        Just(CostRegime::Full),
        Just(CostRegime::Narrow),
        Just(CostRegime::Medium)
    ]
}

pub fn cost_from(raw: i16, regime: CostRegime) -> i16 {
    match regime {
        CostRegime::Full => raw,
        CostRegime::Narrow => raw.rem_euclid(7) - 3,
        CostRegime::Medium => raw.rem_euclid(601) - 300,
    }
}

/// Raw lexicon rows; ids are reduced modulo the connector size when the spec is assembled.
#[derive(Clone, Debug)]
pub struct RawRow {
    pub kind: u8,
    pub refer: u16,
    pub surface: String,
    pub left: u16,
    pub right: u16,
    pub cost: i16,
    pub tail: u8,
}

pub fn raw_rows(max: usize, exclude_space: bool) -> BoxedStrategy<Vec<RawRow>> {
    vec(
        (
            0u8..6,
            any::<u16>(),
            surface(exclude_space),
            any::<u16>(),
            any::<u16>(),
            any::<i16>(),
            0u8..5,
        ),
        1..=max,
    )
    .prop_map(|v| {
        v.into_iter()
            .map(|(kind, refer, surface, left, right, cost, tail)| RawRow {
                kind,
                refer,
                surface,
                left,
                right,
                cost,
                tail,
            })
            .collect()
    })
    .boxed()
}

const TAILS: &[&str] = &["", ",x", ",\"q,1\"", ",*,y", ",名詞"];

/// Turns raw rows into lexicon rows: homographs (repeat an earlier surface), nested prefixes
/// (extend an earlier surface), ids inside the connector, features unique per row.
pub fn assemble_rows(
    raw: &[RawRow],
    nl: usize,
    nr: usize,
    regime: CostRegime,
    tag: &str,
) -> Vec<LexRow> {
    let mut rows: Vec<LexRow> = vec![];
    for (i, r) in raw.iter().enumerate() {
        let mut surface = r.surface.clone();
        if !rows.is_empty() {
            let j = pick(r.refer, rows.len());
            match r.kind {
                0 => surface = rows[j].surface.clone(), // homograph
                1 => {
                    // extension of an earlier surface by the first char of the fresh surface
                    let mut s = rows[j].surface.clone();
                    if s.chars().count() < 6 {
                        s.push(r.surface.chars().next().unwrap());
                    }
                    surface = s;
                }
                _ => {}
            }
        }
        rows.push(LexRow {
            surface,
            left: (usize::from(r.left) % nl) as u16,
            right: (usize::from(r.right) % nr) as u16,
            cost: cost_from(r.cost, regime),
            feature: format!("{tag}{i}{}", TAILS[usize::from(r.tail) % TAILS.len()]),
        });
    }
    rows
}

pub fn matrix_spec(regime: CostRegime) -> BoxedStrategy<MatrixSpec> {
    (1u16..=6, 1u16..=6, any::<bool>(), vec(any::<i16>(), 36), vec(any::<bool>(), 36))
        .prop_map(move |(nr, nl, dense, costs, keep)| {
            let mut cells = vec![];
            for r in 0..nr {
                for l in 0..nl {
                    let k = usize::from(r) * 6 + usize::from(l);
                    if dense || keep[k] {
                        cells.push((r, l, cost_from(costs[k], regime)));
                    }
                }
            }
            MatrixSpec {
                num_right: nr,
                num_left: nl,
                cells,
            }
        })
        .boxed()
}

#[derive(Clone, Copy, Debug, PartialEq, Eq)]
pub enum ConnChoice {
    Any,
    MatrixOnly,
    BigramOnly,
    /// like Any, plus matrices with 21-48 ids per side (sorting/ordering code paths that only
    /// large id sets reach)
    AnyOrWide,
}

pub fn wide_matrix_spec(regime: CostRegime) -> BoxedStrategy<MatrixSpec> {
    (21u16..=48, 21u16..=48, vec((any::<u16>(), any::<u16>(), any::<i16>()), 0..=80))
        .prop_map(move |(nr, nl, raw)| MatrixSpec {
            num_right: nr,
            num_left: nl,
            cells: raw.iter().map(|&(r, l, c)| (r % nr, l % nl, cost_from(c, regime))).collect(),
        })
        .boxed()
}

pub fn conn_spec(regime: CostRegime, choice: ConnChoice) -> BoxedStrategy<ConnSpec> {
    let m = matrix_spec(regime).prop_map(ConnSpec::Matrix).boxed();
    let bregime = match regime {
        CostRegime::Full => Regime::Small,
        CostRegime::Narrow => Regime::Tiny,
        CostRegime::Medium => Regime::Small,
    };
    let b = (bigram_model(bregime, 6), any::<bool>())
        .prop_map(|(model, dual)| ConnSpec::Bigram { model, dual })
        .boxed();
    match choice {
        ConnChoice::Any => prop_oneof![2 => m, 3 => b].boxed(),
        ConnChoice::MatrixOnly => m,
        ConnChoice::BigramOnly => b,
        ConnChoice::AnyOrWide => prop_oneof![2 => m, 2 => b, 2 => wide_matrix_spec(regime).prop_map(ConnSpec::Matrix)].boxed(),
    }
}

#[derive(Clone, Copy, Debug)]
pub struct DictParams {
    pub space: SpaceMode,
    pub conn: ConnChoice,
    pub max_cats: usize,
    pub max_rows: usize,
}

impl Default for DictParams {
    fn default() -> Self {
        Self {
            space: SpaceMode::Free,
            conn: ConnChoice::Any,
            max_cats: 18,
            max_rows: 30,
        }
    }
}

pub fn dict_spec(p: DictParams) -> BoxedStrategy<DictSpec> {
    cost_regime()
        .prop_flat_map(move |regime| {
            (
                chardef(p.space, p.max_cats),
                conn_spec(regime, p.conn),
                raw_rows(p.max_rows, p.space == SpaceMode::Exclusive),
                vec((any::<u16>(), any::<u16>(), any::<u16>(), any::<i16>()), 0..=24),
                vec((any::<u16>(), any::<u16>(), any::<i16>()), 18),
                0u8..2,
                Just(regime),
            )
        })
        .prop_map(|(chardef, conn, raw, extra_unk, base_unk, csv_style, regime)| {
            let nl = conn.num_left();
            let nr = conn.num_right();
            let lex = assemble_rows(&raw, nl, nr, regime, "S");
            let ncat = chardef.cats.len();
            let mut unk = vec![];
            // optional extra rows first (file order differs from category order on purpose)
            for (c, l, r, cost) in extra_unk.iter().take(ncat * 2) {
                unk.push(UnkRow {
                    cat: pick(*c, ncat),
                    left: (usize::from(*l) % nl) as u16,
                    right: (usize::from(*r) % nr) as u16,
                    cost: cost_from(*cost, regime),
                    feature: String::new(),
                });
            }
            // every category has at least one entry (a category without entries is an open
            // known finding, see known_findings.json; excluded by construction)
            for c in (0..ncat).rev() {
                let (l, r, cost) = base_unk[c % base_unk.len()];
                unk.push(UnkRow {
                    cat: c,
                    left: (usize::from(l) % nl) as u16,
                    right: (usize::from(r) % nr) as u16,
                    cost: cost_from(cost, regime),
                    feature: String::new(),
                });
            }
            for (i, u) in unk.iter_mut().enumerate() {
                u.feature = format!("U{i},{}", chardef.cats[u.cat].name);
            }
            DictSpec {
                chardef,
                unk,
                lex,
                conn,
                csv_style,
            }
        })
        .boxed()
}

/// Sentence raw material: mapped to characters with knowledge of the dictionary.
#[derive(Clone, Debug)]
pub struct RawSentence(pub Vec<(u8, u16, u8)>);

pub fn raw_sentence(max_chunks: usize) -> BoxedStrategy<RawSentence> {
    prop_oneof![
        1 => Just(RawSentence(vec![])),
        15 => vec((0u8..8, any::<u16>(), 1u8..=4), 1..=max_chunks).prop_map(RawSentence),
    ]
    .boxed()
}

/// Builds a sentence from chunks: lexicon surfaces, runs of one character, alphabet noise, space
/// runs, U+0000.
pub fn assemble_sentence(raw: &RawSentence, spec: &DictSpec, user: &[LexRow], max_chars: usize) -> String {
    let mut s = String::new();
    for &(kind, r, n) in &raw.0 {
        match kind {
            0 | 1 if !spec.lex.is_empty() => {
                s.push_str(&spec.lex[pick(r, spec.lex.len())].surface);
            }
            2 if !user.is_empty() => {
                s.push_str(&user[pick(r, user.len())].surface);
            }
            3 => {
                let c = ALPHABET[pick(r, ALPHABET.len())];
                for _ in 0..n {
                    s.push(c);
                }
            }
            4 => {
                let c = SPACE_CHARS[pick(r, SPACE_CHARS.len())];
                for _ in 0..n {
                    s.push(c);
                }
            }
            5 if r % 16 == 0 => s.push('\0'),
            6 if !spec.chardef.ranges.is_empty() => {
                // boundary code points of a range line
                let rg = &spec.chardef.ranges[pick(r, spec.chardef.ranges.len())];
                let cands = [
                    rg.start.saturating_sub(1),
                    rg.start,
                    rg.end,
                    (rg.end + 1).min(0xFFFF),
                ];
                for k in 0..usize::from(n).min(4) {
                    if let Some(c) = char::from_u32(cands[(usize::from(r) + k) % 4]) {
                        s.push(c);
                    }
                }
            }
            7 if r % 4 == 0 && max_chars >= 40 => {
                // a run of 24..27 equal characters: reaches the grouping bound of MeCab's
                // default max_grouping_len = 24 (run-1 ∈ {23, 24, 25, 26})
                let c = ALPHABET[pick(r, ALPHABET.len())];
                for _ in 0..(23 + usize::from(n)) {
                    s.push(c);
                }
            }
            _ => {
                s.push(ALPHABET[pick(r, ALPHABET.len())]);
            }
        }
    }
    if s.chars().count() > max_chars {
        s = s.chars().take(max_chars).collect();
    }
    s
}

pub fn tok_opts() -> BoxedStrategy<(bool, usize)> {
    (
        any::<bool>(),
        prop_oneof![
            3 => Just(0usize),
            2 => Just(1usize),
            2 => Just(2usize),
            1 => Just(3usize),
            1 => Just(24usize),
            1 => Just(1_000_000usize)
        ],
    )
        .boxed()
}

// ---------------------------------------------------------------------------------------------
// Logical spec from definition files (used for the repository's own test resources)

/// Interprets definition files with the strict reference parsers; `None` if they leave the
/// plainly documented format.
pub fn spec_from_files(lex: &str, matrix: &str, chardef: &str, unk: &str) -> Option<DictSpec> {
    use crate::gen::csv::split_record;
    let rdef = crate::refmodel::chardef::parse(chardef.as_bytes())?;
    let ids = rdef.category_ids();
    let mut cats: Vec<CatSpec> = vec![
        CatSpec {
            name: String::new(),
            invoke: false,
            group: false,
            length: 0
        };
        ids.len()
    ];
    for c in &rdef.cats {
        cats[ids[&c.name]] = CatSpec {
            name: c.name.clone(),
            invoke: c.invoke,
            group: c.group,
            length: c.length,
        };
    }
    let ranges = rdef
        .ranges
        .iter()
        .map(|(s, e, names)| RangeSpec {
            start: *s,
            end: *e,
            cats: names.iter().map(|n| ids[n]).collect(),
        })
        .collect();
    let row = |line: &str| -> Option<(String, u16, u16, i16, String)> {
        // surface (possibly quoted), three numbers, raw tail
        let cells = split_record(line);
        if cells.len() < 5 {
            return None;
        }
        let head = crate::gen::csv::render_cell(&cells[0], crate::gen::csv::QuoteStyle::Needed);
        let rest = line.strip_prefix(&head).or_else(|| line.strip_prefix(&format!("\"{}\"", cells[0])))?;
        let mut it = rest.strip_prefix(',')?.splitn(4, ',');
        Some((cells[0].clone(), it.next()?.parse().ok()?, it.next()?.parse().ok()?, it.next()?.parse().ok()?, it.next()?.to_string()))
    };
    let mut lexrows = vec![];
    for line in lex.lines().filter(|l| !l.is_empty()) {
        let (surface, left, right, cost, feature) = row(line)?;
        lexrows.push(LexRow {
            surface,
            left,
            right,
            cost,
            feature,
        });
    }
    let mut unkrows = vec![];
    for line in unk.lines().filter(|l| !l.is_empty()) {
        let (name, left, right, cost, feature) = row(line)?;
        unkrows.push(UnkRow {
            cat: *ids.get(&name)?,
            left,
            right,
            cost,
            feature,
        });
    }
    let mut ml = matrix.lines();
    let mut h = ml.next()?.split(' ');
    let (nr, nl): (u16, u16) = (h.next()?.parse().ok()?, h.next()?.parse().ok()?);
    let mut cells = vec![];
    for line in ml.filter(|l| !l.is_empty()) {
        let mut c = line.split(' ');
        cells.push((c.next()?.parse().ok()?, c.next()?.parse().ok()?, c.next()?.parse().ok()?));
    }
    Some(DictSpec {
        chardef: CharDef {
            cats,
            ranges,
            style: 0,
        },
        unk: unkrows,
        lex: lexrows,
        conn: ConnSpec::Matrix(MatrixSpec {
            num_right: nr,
            num_left: nl,
            cells,
        }),
        csv_style: 0,
    })
}

impl CharDef {
    /// True if some range line covers U+0000. Characters >= U+10000 then take U+0000's class
    /// (open known finding of C03), so they are kept out of sentences for such dictionaries.
    pub fn covers_nul(&self) -> bool {
        self.ranges.iter().any(|r| r.start == 0)
    }
}

/// Removes astral characters when the dictionary's char.def covers U+0000 (the exact trigger of
/// the open known finding); returns the number of removed characters.
pub fn exclude_known_astral(spec: &DictSpec, sentence: &mut String) -> usize {
    if !spec.chardef.covers_nul() {
        return 0;
    }
    let before = sentence.chars().count();
    *sentence = sentence.chars().filter(|&c| (c as u32) <= 0xFFFF).collect();
    before - sentence.chars().count()
}
