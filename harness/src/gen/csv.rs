//! CSV cell renderer and an independent RFC 4180 splitter used to self-test it (DESIGN 3.4).

#[derive(Clone, Copy, Debug, PartialEq, Eq)]
pub enum QuoteStyle {
    /// Quote only when the cell contains a comma, a quote, CR or LF.
    Needed,
    /// Always quote.
    Always,
}

pub fn needs_quote(cell: &str) -> bool {
    cell.contains(',') || cell.contains('"') || cell.contains('\n') || cell.contains('\r')
}

pub fn render_cell(cell: &str, style: QuoteStyle) -> String {
    if style == QuoteStyle::Always || needs_quote(cell) {
        let mut s = String::with_capacity(cell.len() + 2);
        s.push('"');
        for c in cell.chars() {
            if c == '"' {
                s.push('"');
            }
            s.push(c);
        }
        s.push('"');
        s
    } else {
        cell.to_string()
    }
}

/// Reference splitter of one CSV record (no embedded record terminators outside quotes).
pub fn split_record(line: &str) -> Vec<String> {
    let mut cells = vec![];
    let mut cur = String::new();
    let mut chars = line.chars().peekable();
    let mut in_quote = false;
    let mut at_start = true;
    while let Some(c) = chars.next() {
        if in_quote {
            if c == '"' {
                if chars.peek() == Some(&'"') {
                    chars.next();
                    cur.push('"');
                } else {
                    in_quote = false;
                }
            } else {
                cur.push(c);
            }
        } else if c == '"' && at_start {
            in_quote = true;
            at_start = false;
        } else if c == ',' {
            cells.push(std::mem::take(&mut cur));
            at_start = true;
        } else {
            cur.push(c);
            at_start = false;
        }
    }
    cells.push(cur);
    cells
}

/// Self-test: render → split gives the cells back.
pub fn self_test() {
    let samples = ["", "a", "a,b", "a\"b", "\"", ",", "x y", "京,都\"", "*"];
    for a in samples {
        for b in samples {
            for style in [QuoteStyle::Needed, QuoteStyle::Always] {
                let line = format!("{},{}", render_cell(a, style), render_cell(b, QuoteStyle::Needed));
                let cells = split_record(&line);
                assert_eq!(cells, vec![a.to_string(), b.to_string()], "csv self-test: {line:?}");
            }
        }
    }
}
