pub mod bigram;
pub mod csv;
pub mod dict;
