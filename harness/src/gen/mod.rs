pub mod bigram;
pub mod csv;
pub mod dict;
pub mod train;
