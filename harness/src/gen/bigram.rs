//! `BigramModel`: logical bigram.right / bigram.left / bigram.cost (DESIGN 3.2).
use proptest::collection::vec;
use proptest::prelude::*;
use serde::{Deserialize, Serialize};

use crate::engine::pick;
use crate::gen::csv::{render_cell, QuoteStyle};

#[derive(Clone, Debug, Serialize, Deserialize, PartialEq, Eq, Hash)]
pub struct BigramModel {
    /// Feature strings per right id 1..; row i is right id i+1. Rows may be shorter than `k`.
    pub right_rows: Vec<Vec<String>>,
    pub left_rows: Vec<Vec<String>>,
    /// (right feature, left feature, cost) lines of bigram.cost, unique pairs.
    pub costs: Vec<(String, String, i32)>,
}

#[derive(Clone, Copy, Debug, PartialEq, Eq)]
pub enum Regime {
    /// |cost| <= 3: many ties.
    Tiny,
    /// any sum over <= 20 positions fits i16: |cost| <= 1500
    Small,
    /// |cost| up to 10^6 (dual pre-sum may clamp)
    Large,
    /// values at the edges of i16 and their halves: sums land exactly on -32768 / 32767
    Boundary,
}

impl BigramModel {
    pub fn k(&self) -> usize {
        self.right_rows
            .iter()
            .chain(self.left_rows.iter())
            .map(|r| r.len())
            .max()
            .unwrap_or(0)
    }

    pub fn render(&self) -> (String, String, String) {
        let side = |rows: &Vec<Vec<String>>| {
            let mut out = String::new();
            for (i, row) in rows.iter().enumerate() {
                out.push_str(&format!("{}\t", i + 1));
                let cells: Vec<String> = row
                    .iter()
                    .map(|c| render_cell(c, QuoteStyle::Needed))
                    .collect();
                out.push_str(&cells.join(","));
                out.push('\n');
            }
            out
        };
        let mut cost = String::new();
        for (r, l, c) in &self.costs {
            cost.push_str(&format!("{r}/{l}\t{c}\n"));
        }
        (side(&self.right_rows), side(&self.left_rows), cost)
    }
}

/// Vocabulary shared across positions. None of them contains '/', TAB, LF or '"'.
const VOCAB: &[&str] = &[
    "A", "B", "C", "D", "p:x", "a,b", "é", "x y", "L0", "L1", "名詞", "q,r,s",
];

pub fn bigram_model(regime: Regime, max_ids: usize) -> BoxedStrategy<BigramModel> {
    let kstrat = prop_oneof![
        3 => 1usize..=7,
        2 => Just(8usize),
        3 => 9usize..=16,
        1 => 17usize..=20,
    ];
    (
        kstrat,
        1usize..=12,
        1usize..=12,
        vec(vec((any::<u16>(), 0u8..16), 20), 1..=max_ids),
        vec(vec((any::<u16>(), 0u8..16), 20), 1..=max_ids),
        vec(any::<u8>(), 2 * 8),
        vec((any::<u16>(), any::<u16>(), any::<i32>(), any::<bool>()), 0..=60),
        any::<bool>(),
    )
        .prop_map(
            move |(k, rv, lv, rraw, lraw, lens, craw, dense)| {
                let rvoc: Vec<String> = (0..rv).map(|i| VOCAB[i].to_string()).collect();
                // left vocabulary overlaps textually with the right one on purpose
                let lvoc: Vec<String> = (0..lv).map(|i| VOCAB[(i + 3) % VOCAB.len()].to_string()).collect();
                let mk = |raw: &Vec<Vec<(u16, u8)>>, voc: &Vec<String>, off: usize| {
                    let mut rows = vec![];
                    for (i, r) in raw.iter().enumerate() {
                        // ragged: some rows shorter than k
                        let lb = lens[(off + i) % lens.len()];
                        let len = if lb % 4 == 0 {
                            1 + usize::from(lb / 4) % k
                        } else {
                            k
                        };
                        let mut row = vec![];
                        for p in 0..len {
                            let (x, special) = r[p];
                            let cell = match special {
                                0 => "*".to_string(),
                                1 => "zz-unlisted".to_string(),
                                2 if p % 5 == 4 => String::new(),
                                _ => voc[pick(x, voc.len())].clone(),
                            };
                            row.push(cell);
                        }
                        rows.push(row);
                    }
                    rows
                };
                let mut right_rows = mk(&rraw, &rvoc, 0);
                let left_rows = mk(&lraw, &lvoc, 8);
                // make sure K is realised by at least one row
                if right_rows.iter().chain(left_rows.iter()).all(|r| r.len() < k) {
                    let r0 = &mut right_rows[0];
                    while r0.len() < k {
                        r0.push(rvoc[r0.len() % rvoc.len()].clone());
                    }
                }
                let scale = |c: i32| -> i32 {
                    match regime {
                        Regime::Tiny => c.rem_euclid(7) - 3,
                        Regime::Small => c.rem_euclid(3001) - 1500,
                        Regime::Large => c.rem_euclid(2_000_001) - 1_000_000,
                        Regime::Boundary => [-32768, -32767, 32767, 32766, -16384, 16384, -16383, 16383, -1, 1, -32768, 0][c.rem_euclid(12) as usize],
                    }
                };
                let mut costs: Vec<(String, String, i32)> = vec![];
                let mut seen = std::collections::HashSet::new();
                let mut push = |r: String, l: String, c: i32| {
                    if seen.insert((r.clone(), l.clone())) {
                        costs.push((r, l, c));
                    }
                };
                if dense {
                    let mut n = 0usize;
                    for r in &rvoc {
                        for l in &lvoc {
                            let c = craw.get(n % craw.len().max(1)).map(|x| x.2).unwrap_or(1);
                            n += 1;
                            push(r.clone(), l.clone(), scale(c.wrapping_add(n as i32 * 7919)));
                        }
                    }
                }
                for (a, b, c, special) in &craw {
                    let mut r = rvoc[pick(*a, rvoc.len())].clone();
                    let mut l = lvoc[pick(*b, lvoc.len())].clone();
                    if *special {
                        match c.rem_euclid(5) {
                            0 => {
                                r = String::new(); // BOS line: ''/x
                                if c.rem_euclid(35) == 0 {
                                    l = String::new(); // the ''/'' line (BOS/EOS with itself)
                                }
                            }
                            1 => l = String::new(),          // EOS line: x/''
                            // a line that names '*' (C07: a '*' cell counts as 0 whatever bigram.cost lists), else a feature that never occurs in rows
                            2 => r = if c.rem_euclid(10) < 5 { "*".into() } else { "never-in-rows".into() },
                            3 => {
                                push(r.clone(), l.clone(), 0); // explicit zero cost
                                continue;
                            }
                            _ => l = if c.rem_euclid(10) < 5 { "*".into() } else { "never-in-rows".into() },
                        }
                    }
                    push(r, l, scale(*c));
                }
                BigramModel {
                    right_rows,
                    left_rows,
                    costs,
                }
            },
        )
        .boxed()
}
