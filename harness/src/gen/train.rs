//! `TrainSpec`: logical training configuration and corpus (DESIGN 3.3).
use proptest::collection::vec;
use proptest::prelude::*;
use serde::{Deserialize, Serialize};

use crate::engine::pick;
use crate::gen::csv::{render_cell, QuoteStyle};

#[derive(Clone, Debug, Serialize, Deserialize, PartialEq, Eq, Hash)]
pub struct SeedRow {
    pub surface: String,
    /// feature cells (rendered as CSV; a cell containing a comma is quoted)
    pub cells: Vec<String>,
}

impl SeedRow {
    pub fn feature(&self) -> String {
        self.cells.iter().map(|c| render_cell(c, QuoteStyle::Needed)).collect::<Vec<_>>().join(",")
    }
}

#[derive(Clone, Debug, Serialize, Deserialize, PartialEq, Eq, Hash)]
pub struct TCat {
    pub name: String,
    pub invoke: bool,
    pub group: bool,
    pub length: u8,
    /// characters of this category (single-point range lines)
    pub chars: Vec<char>,
}

#[derive(Clone, Debug, Serialize, Deserialize, PartialEq, Eq, Hash)]
pub struct Rule {
    pub pattern: Vec<String>,
    pub rewrite: Vec<String>,
}

#[derive(Clone, Debug, Serialize, Deserialize, PartialEq, Eq, Hash, Default)]
pub struct RewriteDef {
    pub unigram: Vec<Rule>,
    pub left: Vec<Rule>,
    pub right: Vec<Rule>,
}

impl RewriteDef {
    pub fn render(&self) -> String {
        let mut out = String::new();
        for (h, rules) in [("[unigram rewrite]", &self.unigram), ("[left rewrite]", &self.left), ("[right rewrite]", &self.right)] {
            out.push_str(h);
            out.push('\n');
            for r in rules {
                out.push_str(&format!("{}\t{}\n", r.pattern.join(","), r.rewrite.join(",")));
            }
            out.push('\n');
        }
        out
    }
}

#[derive(Clone, Debug, Serialize, Deserialize, PartialEq, Eq, Hash)]
pub struct UserRow {
    pub surface: String,
    pub left: u16,
    pub right: u16,
    pub cost: i16,
    pub cells: Vec<String>,
}

#[derive(Clone, Debug, Serialize, Deserialize, PartialEq, Eq, Hash)]
pub struct TrainSpec {
    pub lex: Vec<SeedRow>,
    /// cats[0] is DEFAULT
    pub cats: Vec<TCat>,
    /// (category index, feature cells), in file order
    pub unk: Vec<(usize, Vec<String>)>,
    pub unigram_templates: Vec<String>,
    pub bigram_templates: Vec<(String, String)>,
    pub rewrite: RewriteDef,
    /// sentences of (surface, feature string)
    pub corpus: Vec<Vec<(String, String)>>,
    pub user: Option<Vec<UserRow>>,
    /// export the dictionary once before the user lexicon is read (the cached merged model must
    /// then be invalidated)
    #[serde(default)]
    pub export_before_user: bool,
    /// write_model + read_model before the user lexicon is read (the train -> dictgen workflow)
    #[serde(default)]
    pub reload_before_user: bool,
    pub max_iter: u8,
    /// 0 => 0.001, 1 => 0.01, 2 => 1.0 (0.0 is rejected by the optimiser: training does not succeed)
    pub lambda: u8,
}

pub const TCHARS: &[char] = &['a', 'b', 'c', 'd', '1', '2', 'あ', 'い', '京', '都', 'é', '\u{1F600}', 'a', 'b', 'あ', ',', '"', ' '];
const CELLS: &[&str] = &["N", "V", "A", "x", "y", "p,q", "*", "k"];

impl TrainSpec {
    /// After seed rows were edited: corpus tokens whose (surface, feature) no longer names a seed row
    /// although the surface is in the lexicon take the feature of the first row with that surface.
    pub fn resync_corpus(&mut self) {
        for sent in self.corpus.iter_mut() {
            for (surface, feat) in sent.iter_mut() {
                let same: Vec<&SeedRow> = self.lex.iter().filter(|r| r.surface == *surface).collect();
                if !same.is_empty() && !same.iter().any(|r| r.feature() == *feat) {
                    *feat = same[0].feature();
                }
            }
        }
    }

    /// Adds (as the first row of an existing user lexicon) a row that mixes the cells of the two seed rows used
    /// first in the corpus: its merged weight tends to exceed every seed word's, so that loading it moves the
    /// largest absolute weight of the model. `explicit`: with explicit ids and cost instead of `0,0,0`.
    pub fn add_weight_raising_user_row(&mut self, explicit: bool) {
        let Some(u) = self.user.as_mut() else { return };
        let mut gold: Vec<&SeedRow> = vec![];
        for (sf, feat) in self.corpus.iter().flatten() {
            if let Some(r) = self.lex.iter().find(|r| r.surface == *sf && r.feature() == *feat) {
                if !gold.iter().any(|g| g.cells == r.cells) {
                    gold.push(r);
                }
            }
        }
        gold.truncate(3);
        // with explicit parameters several mixes are added (any of them holding the largest weight will do);
        // with 0,0,0 a single one (the histories of C15 load one row at a time)
        let mut rows = vec![];
        for (x, a) in gold.iter().enumerate() {
            for (y, b) in gold.iter().enumerate() {
                if x == y || (!explicit && !rows.is_empty()) {
                    continue;
                }
                let n = a.cells.len().max(b.cells.len());
                let cells: Vec<String> = (0..n)
                    .map(|i| if i % 2 == 0 { a.cells.get(i).or(b.cells.get(i)) } else { b.cells.get(i).or(a.cells.get(i)) }.cloned().unwrap_or_else(|| "*".into()))
                    .collect();
                let (left, right, cost) = if explicit { (1, 1, 7) } else { (0, 0, 0) };
                rows.push(UserRow { surface: format!("zq{}", rows.len()), left, right, cost, cells });
            }
        }
        for (k, r) in rows.into_iter().enumerate() {
            u.insert(k, r);
        }
    }

    pub fn lex_csv(&self) -> String {
        let mut s = String::new();
        for r in &self.lex {
            s.push_str(&format!("{},0,0,0,{}\n", render_cell(&r.surface, QuoteStyle::Needed), r.feature()));
        }
        s
    }
    pub fn char_def(&self) -> String {
        let mut s = String::new();
        for c in &self.cats {
            s.push_str(&format!("{} {} {} {}\n", c.name, u8::from(c.invoke), u8::from(c.group), c.length));
        }
        for c in &self.cats {
            for ch in &c.chars {
                if (*ch as u32) <= 0xFFFF {
                    s.push_str(&format!("0x{:04X} {}\n", *ch as u32, c.name));
                }
            }
        }
        s
    }
    pub fn unk_def(&self) -> String {
        let mut s = String::new();
        for (c, cells) in &self.unk {
            let f = cells.iter().map(|c| render_cell(c, QuoteStyle::Needed)).collect::<Vec<_>>().join(",");
            s.push_str(&format!("{},0,0,0,{}\n", render_cell(&self.cats[*c].name, QuoteStyle::Needed), f));
        }
        s
    }
    pub fn feature_def(&self) -> String {
        let mut s = String::from("# generated feature.def\n");
        for t in &self.unigram_templates {
            s.push_str(&format!("UNIGRAM {t}\n"));
        }
        s.push('\n');
        for (l, r) in &self.bigram_templates {
            s.push_str(&format!("BIGRAM {l}/{r}\n"));
        }
        s
    }
    pub fn corpus_text(&self) -> String {
        let mut s = String::new();
        for sent in &self.corpus {
            for (surf, feat) in sent {
                s.push_str(&format!("{surf}\t{feat}\n"));
            }
            s.push_str("EOS\n");
        }
        s
    }
    pub fn user_csv(&self) -> Option<String> {
        self.user.as_ref().map(|rows| {
            let mut s = String::new();
            for r in rows {
                let f = r.cells.iter().map(|c| render_cell(c, QuoteStyle::Needed)).collect::<Vec<_>>().join(",");
                s.push_str(&format!("{},{},{},{},{}\n", render_cell(&r.surface, QuoteStyle::Needed), r.left, r.right, r.cost, f));
            }
            s
        })
    }
    pub fn lambda_value(&self) -> f64 {
        match self.lambda {
            0 => 0.001,
            1 => 0.01,
            _ => 1.0,
        }
    }
    /// Category index of a character (single-point ranges; the last listing wins; else DEFAULT).
    pub fn cat_of(&self, c: char) -> usize {
        let mut found = 0;
        if (c as u32) <= 0xFFFF {
            for (i, cat) in self.cats.iter().enumerate() {
                if cat.chars.contains(&c) {
                    found = i;
                }
            }
        }
        found
    }
}

fn cells(max: usize) -> BoxedStrategy<Vec<String>> {
    // mostly 1..=max cells, sometimes a wide row (11-22 cells: two-digit column indices exist)
    (
        vec(any::<u16>(), 1..=max),
        prop_oneof![11 => Just(vec![]), 1 => vec(any::<u16>(), 10..=19)],
        // rarely one cell of about 2 KiB whose first comma or quote sits at byte 2040..2054
        proptest::option::weighted(0.02, (any::<u16>(), 2040usize..=2054, any::<bool>())),
    )
        .prop_map(|(v, wide, long)| {
            let mut cells: Vec<String> = v.iter().chain(wide.iter()).map(|&x| CELLS[pick(x, CELLS.len())].to_string()).collect();
            if let Some((at, n, quote)) = long {
                let i = pick(at, cells.len());
                cells[i] = format!("{}{}t", "q".repeat(n), if quote { "\"" } else { "," });
            }
            cells
        })
        .boxed()
}

fn surface() -> BoxedStrategy<String> {
    prop_oneof![
        60 => vec(any::<u16>(), 1..=3).prop_map(|v| v.iter().map(|&x| TCHARS[pick(x, TCHARS.len())]).collect::<String>()),
        // a surface of about 2 KiB whose first character that needs CSV quoting (if any) sits at byte 2040..2054
        // (four-byte characters keep the number of characters, and with it the trie depth, near 540)
        1 => (20usize..=34, 0u8..3).prop_map(|(a, k)| format!("{}{}{}b", "x".repeat(a), "\u{1F600}".repeat(505), [",", "\"", "z"][usize::from(k)])),
    ]
    .boxed()
}

pub fn unigram_template(j: usize) -> BoxedStrategy<String> {
    vec((0u8..6, column_index()), 0..=3)
        .prop_map(move |refs| {
            let parts: Vec<String> = refs
                .iter()
                .map(|&(k, i)| match k {
                    0..=2 => format!("%F[{i}]"),
                    3 | 4 => format!("%F?[{i}]"),
                    _ => "%t".to_string(),
                })
                .collect();
            format!("U{j}:{}", parts.join(","))
        })
        .boxed()
}

/// Column index of a template reference: mostly 0..4, sometimes two- or three-digit (beyond the row width
/// such a reference expands to '*').
pub fn column_index() -> BoxedStrategy<usize> {
    prop_oneof![12 => 0usize..5, 1 => proptest::sample::select(vec![9usize, 10, 11, 12, 19, 20, 21, 100])].boxed()
}

pub fn bigram_side(j: usize, side: char) -> BoxedStrategy<String> {
    vec((0u8..5, column_index()), 0..=3)
        .prop_map(move |refs| {
            let parts: Vec<String> = refs
                .iter()
                .map(|&(k, i)| if k < 3 { format!("%{side}[{i}]") } else { format!("%{side}?[{i}]") })
                .collect();
            format!("B{j}:{}", parts.join(","))
        })
        .boxed()
}

const PCELLS: &[&str] = &["*", "N", "V", "x", "(N|V)", "(x|y|k)", "A", "(N|x)", "(V|A|N)", "(x|N)"];
const RCELLS: &[&str] = &["$1", "$2", "$3", "$4", "$6", "Z", "N", "x", "*"];

pub fn rule() -> BoxedStrategy<Rule> {
    (vec(any::<u16>(), 1..=4), vec(any::<u16>(), 1..=4))
        .prop_map(|(p, r)| Rule {
            pattern: p.iter().map(|&x| PCELLS[pick(x, PCELLS.len())].to_string()).collect(),
            rewrite: r.iter().map(|&x| RCELLS[pick(x, RCELLS.len())].to_string()).collect(),
        })
        .boxed()
}

/// Rule lists that share prefixes on purpose.
pub fn rules(max: usize) -> BoxedStrategy<Vec<Rule>> {
    vec((rule(), any::<bool>(), any::<u16>(), any::<u16>()), 0..=max)
        .prop_map(|raw| {
            let mut out: Vec<Rule> = vec![];
            for (mut r, share, which, len) in raw {
                if share && !out.is_empty() {
                    let prev = &out[pick(which, out.len())].pattern;
                    let n = 1 + pick(len, prev.len());
                    let mut p: Vec<String> = prev[..n].to_vec();
                    p.extend(r.pattern.iter().skip(n).cloned());
                    r.pattern = p;
                }
                out.push(r);
            }
            out
        })
        .boxed()
}

pub fn train_spec(max_templates: usize, with_user: bool) -> BoxedStrategy<TrainSpec> {
    let maxb = max_templates;
    (
        vec((surface(), cells(4)), 3..=14),
        (1usize..=4, vec((any::<bool>(), any::<bool>(), 0u8..3, vec(any::<u16>(), 1..=3)), 4)),
        vec((any::<u16>(), cells(3)), 0..=4),
        (
            (1usize..=4).prop_flat_map(|n| (0..n).map(unigram_template).collect::<Vec<_>>()),
            (1usize..=maxb).prop_flat_map(|n| (0..n).map(|j| (bigram_side(j, 'L'), bigram_side(j, 'R'))).collect::<Vec<_>>()),
        ),
        (rules(3), rules(3), rules(3)),
        vec(vec((0u8..8, any::<u16>(), any::<u16>()), 1..=5), 1..=6),
        if with_user {
            proptest::option::weighted(0.6, vec((surface(), any::<bool>(), any::<u16>(), any::<i16>(), cells(4)), 1..=4)).boxed()
        } else {
            Just(None).boxed()
        },
        (1u8..=6, 0u8..3, any::<bool>(), any::<bool>()),
    )
        .prop_map(|(lexraw, (ncat, catraw), unkraw, (uni, bi), (ru, rl, rr), corpraw, userraw, (max_iter, lambda, export_before_user, reload_before_user))| {
            let lex: Vec<SeedRow> = lexraw.into_iter().map(|(surface, cells)| SeedRow { surface, cells }).collect();
            let mut cats = vec![];
            for (i, (invoke, group, length, chs)) in catraw.iter().take(ncat).enumerate() {
                cats.push(TCat {
                    // char.def names are white-space-free tokens; unk.def is CSV, so a name may need quoting there
                    name: if i == 0 {
                        "DEFAULT".into()
                    } else {
                        match (usize::from(*length) + chs.len() + i) % 6 {
                            0 => format!("K{i},x"),
                            1 => format!("K\"{i}"),
                            _ => format!("K{i}"),
                        }
                    },
                    invoke: *invoke,
                    group: *group,
                    length: *length,
                    chars: if i == 0 { vec![] } else { chs.iter().map(|&x| TCHARS[pick(x, TCHARS.len())]).collect() },
                });
            }
            // every category gets one unk entry, plus extras
            let mut unk: Vec<(usize, Vec<String>)> = (0..cats.len()).map(|c| (c, vec![format!("UNK{c}"), "*".to_string()])).collect();
            for (c, cells) in unkraw {
                unk.push((pick(c, cats.len()), cells));
            }
            let mut corpus = vec![];
            for sraw in corpraw {
                let mut sent = vec![];
                for (kind, a, b) in sraw {
                    if kind < 6 {
                        let r = &lex[pick(a, lex.len())];
                        sent.push((r.surface.clone(), r.feature()));
                    } else {
                        // out-of-lexicon token: a single character with an unk entry's feature or a foreign one
                        let c = TCHARS[pick(a, TCHARS.len())];
                        let feat = if kind == 6 {
                            let u = &unk[pick(b, unk.len())].1;
                            u.iter().map(|c| render_cell(c, QuoteStyle::Needed)).collect::<Vec<_>>().join(",")
                        } else {
                            "OOV,none".to_string()
                        };
                        sent.push((c.to_string(), feat));
                    }
                }
                corpus.push(sent);
            }
            let user = userraw.map(|rows| {
                rows.into_iter()
                    .map(|(surface, zero, id, cost, cells)| UserRow {
                        surface,
                        left: if zero { 0 } else { 1 + id % 3 },
                        right: if zero { 0 } else { 1 + (id / 7) % 3 },
                        cost: if zero { 0 } else { cost },
                        cells,
                    })
                    .collect()
            });
            // MeCab writes `BIGRAM B00:%L[..]/%R[..]`: only the left half carries the literal prefix. A third of the
            // templates follow that style when their right half has at least two references (a bare half with a single
            // reference expands to a feature that is literally `*` or empty: open finding of C16, excluded by construction).
            let bi: Vec<(String, String)> = bi
                .into_iter()
                .enumerate()
                .map(|(j, (l, r))| {
                    let bare = r.split_once(':').map(|(_, rest)| rest.to_string()).filter(|rest| rest.contains(',') && (j + usize::from(max_iter)) % 3 == 0);
                    (l, bare.unwrap_or(r))
                })
                .collect();
            TrainSpec {
                lex,
                cats,
                unk,
                unigram_templates: uni,
                bigram_templates: bi,
                rewrite: RewriteDef { unigram: ru, left: rl, right: rr },
                corpus,
                user,
                export_before_user,
                reload_before_user,
                max_iter,
                lambda,
            }
        })
        .boxed()
}
