//! C10: the dual-connector builder panics (instead of returning an error) when bigram.right
//! defines more connection ids than fit in 16 bits. The raw-connector builder accepts the
//! same files.
use vibrato::SystemDictionaryBuilder;

const T: usize = 9; // one template more than the 8 handled by the raw part of the dual connector

fn files(n: usize) -> (String, String, String) {
    let mut right = String::new();
    let mut cost = String::new();
    for i in 1..=n {
        right.push_str(&format!("{i}\t"));
        for t in 0..T {
            if t != 0 {
                right.push(',');
            }
            right.push_str(&format!("r{i}t{t}"));
            // Distinct left features keep the double-array construction of the scorer fast.
            cost.push_str(&format!("r{i}t{t}/l{i}t{t}\t1\n"));
        }
        right.push('\n');
    }
    let left = format!("1\t{}\n", vec!["l"; T].join(","));
    (right, left, cost)
}

fn build(n: usize, dual: bool) -> vibrato::errors::Result<vibrato::Dictionary> {
    let (right, left, cost) = files(n);
    SystemDictionaryBuilder::from_readers_with_bigram_info(
        "a,1,1,0,A\n".as_bytes(),
        right.as_bytes(),
        left.as_bytes(),
        cost.as_bytes(),
        "DEFAULT 0 1 0\n".as_bytes(),
        "DEFAULT,1,1,100,*\n".as_bytes(),
        dual,
    )
}

#[test]
fn raw_builder_is_total_on_65536_ids() {
    // Either Ok or Err is fine; it must not panic.
    let _ = build(65536, false);
}

#[test]
fn dual_builder_is_total_on_65536_ids() {
    // Either Ok or Err is fine; it must not panic.
    let _ = build(65536, true);
}
