//! C20: generate_bigram_info and the model.def weights.
#![cfg(vibrato_verif)]
use vibrato::mecab::generate_bigram_info;
use vibrato::verif_hooks::conn_cost;
use vibrato::SystemDictionaryBuilder;

fn convert(
    feature_def: &str,
    right_id_def: &str,
    left_id_def: &str,
    model_def: &str,
    cost_factor: f64,
) -> vibrato::errors::Result<(String, String, String)> {
    let mut r = vec![];
    let mut l = vec![];
    let mut c = vec![];
    generate_bigram_info(
        feature_def.as_bytes(),
        right_id_def.as_bytes(),
        left_id_def.as_bytes(),
        model_def.as_bytes(),
        cost_factor,
        &mut r,
        &mut l,
        &mut c,
    )?;
    Ok((
        String::from_utf8(r).unwrap(),
        String::from_utf8(l).unwrap(),
        String::from_utf8(c).unwrap(),
    ))
}

fn compile(r: &str, l: &str, c: &str, lex: &str) -> vibrato::Dictionary {
    SystemDictionaryBuilder::from_readers_with_bigram_info(
        lex.as_bytes(),
        r.as_bytes(),
        l.as_bytes(),
        c.as_bytes(),
        "DEFAULT 0 1 0\n".as_bytes(),
        "DEFAULT,1,1,100,*\n".as_bytes(),
        false,
    )
    .unwrap()
}

const FEATURE_DEF: &str = "BIGRAM B0:%L[0]/%R[0]\n";

/// A weight written with an exponent is a valid decimal number but its line is dropped silently.
#[test]
fn weight_with_exponent() {
    let right_id = "0 BOS/EOS,*\n1 N,*\n";
    let left_id = "0 BOS/EOS,*\n1 V,*\n";
    let plain = "0.25\tB0:N/V\n";
    let expo = "2.5e-1\tB0:N/V\n";
    let (r, l, c) = convert(FEATURE_DEF, right_id, left_id, plain, 100.0).unwrap();
    let d = compile(&r, &l, &c, "a,1,1,0,A\n");
    assert_eq!(conn_cost(&d, 1, 1), -25);

    let (r, l, c) = convert(FEATURE_DEF, right_id, left_id, expo, 100.0).unwrap();
    eprintln!("bigram.cost for the exponent form: {c:?}");
    let d = compile(&r, &l, &c, "a,1,1,0,A\n");
    assert_eq!(conn_cost(&d, 1, 1), -25, "same weight written as 2.5e-1");
}

/// An explicitly signed positive weight is dropped as well.
#[test]
fn weight_with_plus_sign() {
    let right_id = "0 BOS/EOS,*\n1 N,*\n";
    let left_id = "0 BOS/EOS,*\n1 V,*\n";
    let (r, l, c) = convert(FEATURE_DEF, right_id, left_id, "+0.25\tB0:N/V\n", 100.0).unwrap();
    eprintln!("bigram.cost for +0.25: {c:?}");
    let d = compile(&r, &l, &c, "a,1,1,0,A\n");
    assert_eq!(conn_cost(&d, 1, 1), -25);
}

/// The feature text of a model.def line is cut at the first two '/' and the rest is ignored,
/// so a line is attributed to a pair it does not describe.
#[test]
fn slash_inside_a_feature_value() {
    let right_id = "0 BOS/EOS,*\n1 x,*\n";
    // left ids 1 and 2 have first features "a" and "a/b"
    let left_id = "0 BOS/EOS,*\n1 a,*\n2 a/b,*\n";
    // The only line is the one for (left expansion "B0:x", right expansion "a/b").
    let model = "1.0\tB0:x/a/b\n";
    let (r, l, c) = convert(FEATURE_DEF, right_id, left_id, model, 100.0).unwrap();
    eprintln!("bigram.right={r:?} bigram.left={l:?} bigram.cost={c:?}");
    let d = compile(&r, &l, &c, "a,1,1,0,A\nb,2,1,0,B\n");
    // No model.def line has the text "B0:x/a".
    assert_eq!(conn_cost(&d, 1, 1), 0, "pair (x, a)");
    // The line "B0:x/a/b" is left expansion + '/' + right expansion of this pair.
    assert_eq!(conn_cost(&d, 1, 2), -100, "pair (x, a/b)");
}

/// Without a line for id 0 the last id is dropped without any error.
#[test]
fn id_table_without_line_zero() {
    let right_id = "1 N,*\n2 M,*\n3 K,*\n";
    let left_id = "1 V,*\n2 W,*\n3 U,*\n";
    let model = "1.0\tB0:K/U\n";
    match convert(FEATURE_DEF, right_id, left_id, model, 100.0) {
        Err(e) => eprintln!("reported: {e}"),
        Ok((r, l, c)) => {
            eprintln!("bigram.right={r:?} bigram.left={l:?} bigram.cost={c:?}");
            assert_eq!(r.lines().count(), 3, "ids 1, 2 and 3 must all be emitted");
            assert_eq!(l.lines().count(), 3, "ids 1, 2 and 3 must all be emitted");
        }
    }
}
