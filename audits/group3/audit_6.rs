//! C11 (observation): a well-formed lexicon row with a cell of 4096 bytes or more is rejected.
use vibrato::SystemDictionaryBuilder;

fn build(lex: &str) -> vibrato::errors::Result<vibrato::Dictionary> {
    SystemDictionaryBuilder::from_readers(
        lex.as_bytes(),
        "1 1\n".as_bytes(),
        "DEFAULT 0 1 0\n".as_bytes(),
        "DEFAULT,0,0,1,*\n".as_bytes(),
    )
}

#[test]
fn feature_cell_of_4095_bytes() {
    build(&format!("a,0,0,0,x,{},y\n", "z".repeat(4095))).unwrap();
}

#[test]
fn feature_cell_of_4096_bytes() {
    // The feature string is taken from the raw bytes of the row, the cell is never needed unquoted.
    build(&format!("a,0,0,0,x,{},y\n", "z".repeat(4096))).unwrap();
}
