//! exploratory: raw / dual connectors vs the defining sum
#![cfg(vibrato_verif)]
use std::collections::HashMap;
use vibrato::verif_hooks::conn_cost;
use vibrato::SystemDictionaryBuilder;

struct Rng(u64);
impl Rng {
    fn next(&mut self) -> u64 {
        self.0 = self.0.wrapping_mul(6364136223846793005).wrapping_add(1442695040888963407);
        self.0 >> 33
    }
    fn below(&mut self, n: usize) -> usize {
        (self.next() % n as u64) as usize
    }
}

fn quote(s: &str) -> String {
    if s.contains([',', '"']) {
        format!("\"{}\"", s.replace('"', "\"\""))
    } else {
        s.to_string()
    }
}

#[test]
fn random_models() {
    let mut r = Rng(777);
    for iter in 0..400 {
        let nt = [0, 1, 3, 7, 8, 9, 15, 16, 17, 24][r.below(10)];
        let nvocab = [2, 5, 40, 400][r.below(4)];
        let vocab = |r: &mut Rng| -> String {
            let k = r.below(nvocab);
            match k % 7 {
                0 => format!("f{k}"),
                1 => format!("a,b{k}"),
                2 => format!("q\"{k}"),
                3 => format!("あ{k}"),
                4 => format!("B{k}:x y"),
                5 => String::new(),
                _ => format!("{k}"),
            }
        };
        let nr = 1 + r.below(6);
        let nl = 1 + r.below(6);
        let mut rows = |r: &mut Rng, n: usize| -> Vec<Vec<Option<String>>> {
            (0..n)
                .map(|_| {
                    let len = if r.below(3) == 0 { r.below(nt + 1) } else { nt };
                    (0..len).map(|_| if r.below(4) == 0 { None } else { Some(vocab(r)) }).collect()
                })
                .collect()
        };
        let right = rows(&mut r, nr);
        let left = rows(&mut r, nl);
        let ncost = [0, 3, 30, 300, 3000][r.below(5)];
        let mut costs: HashMap<(String, String), i32> = HashMap::new();
        let mut cost_txt = String::new();
        for _ in 0..ncost {
            let a = vocab(&mut r);
            let b = vocab(&mut r);
            let c = (r.below(2001) as i32) - 1000;
            cost_txt.push_str(&format!("{a}/{b}\t{c}\n"));
            costs.insert((a, b), c);
        }
        let ser = |rows: &Vec<Vec<Option<String>>>| -> String {
            let mut s = String::new();
            for (i, row) in rows.iter().enumerate() {
                s.push_str(&format!("{}\t", i + 1));
                let cells: Vec<String> = row.iter().map(|c| match c { None => "*".to_string(), Some(x) => quote(x) }).collect();
                s.push_str(&cells.join(","));
                s.push('\n');
            }
            s
        };
        let rt = ser(&right);
        let lt = ser(&left);
        // an empty row "i\t" is read as one empty cell
        let norm = |rows: &Vec<Vec<Option<String>>>| -> Vec<Vec<Option<String>>> {
            rows.iter().map(|row| if row.is_empty() { vec![Some(String::new())] } else { row.clone() }).collect()
        };
        let right = norm(&right);
        let left = norm(&left);
        let ntpl = right.iter().chain(left.iter()).map(|x| x.len()).max().unwrap();
        let feat = |rows: &Vec<Vec<Option<String>>>, id: usize, p: usize| -> Option<String> {
            if id == 0 { Some(String::new()) } else { rows[id - 1].get(p).cloned().flatten() }
        };
        let mut dicts = vec![];
        for dual in [false, true] {
            dicts.push(
                SystemDictionaryBuilder::from_readers_with_bigram_info(
                    "a,0,0,0,A\n".as_bytes(), rt.as_bytes(), lt.as_bytes(), cost_txt.as_bytes(),
                    "DEFAULT 0 1 0\n".as_bytes(), "DEFAULT,0,0,100,*\n".as_bytes(), dual,
                ).unwrap(),
            );
        }
        for rid in 0..=nr {
            for lid in 0..=nl {
                let mut exp = 0;
                for p in 0..ntpl {
                    if let (Some(a), Some(b)) = (feat(&right, rid, p), feat(&left, lid, p)) {
                        exp += costs.get(&(a, b)).copied().unwrap_or(0);
                    }
                }
                for (k, d) in dicts.iter().enumerate() {
                    let got = conn_cost(d, rid as u16, lid as u16);
                    assert_eq!(got, exp, "iter {iter} dual={k} rid={rid} lid={lid}\nright={rt}\nleft={lt}\ncost={cost_txt}");
                }
            }
        }
    }
}
