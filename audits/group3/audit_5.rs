//! C19: MeCab-style tokenizer output must parse as a corpus with exactly the tokenizer's tokens
//! for every tab-free single-line input.
use vibrato::trainer::Corpus;
use vibrato::{SystemDictionaryBuilder, Tokenizer};

fn mecab_output(dict: vibrato::Dictionary, input: &str) -> (String, Vec<(String, String)>) {
    assert!(!input.contains(['\t', '\n', '\r']));
    let tokenizer = Tokenizer::new(dict);
    let mut worker = tokenizer.new_worker();
    worker.reset_sentence(input);
    worker.tokenize();
    let mut out = String::new();
    let mut toks = vec![];
    // Exactly what tokenize/src/main.rs prints in the (default) mecab mode.
    for i in 0..worker.num_tokens() {
        let t = worker.token(i);
        out.push_str(t.surface());
        out.push('\t');
        out.push_str(t.feature());
        out.push('\n');
        toks.push((t.surface().to_string(), t.feature().to_string()));
    }
    out.push_str("EOS\n");
    (out, toks)
}

fn check(lex: &str, input: &str) {
    let dict = SystemDictionaryBuilder::from_readers(
        lex.as_bytes(),
        "1 1\n0 0 0\n".as_bytes(),
        "DEFAULT 0 1 0\n".as_bytes(),
        "DEFAULT,0,0,100,*\n".as_bytes(),
    )
    .unwrap();
    let (out, toks) = mecab_output(dict, input);
    eprintln!("output: {out:?}");
    let corpus = Corpus::from_reader(out.as_bytes()).expect("the output must parse as a corpus");
    assert_eq!(corpus.len(), 1);
    let parsed: Vec<_> = corpus[0]
        .tokens()
        .iter()
        .map(|w| (w.surface().to_string(), w.feature().to_string()))
        .collect();
    assert_eq!(parsed, toks);
}

#[test]
fn plain_feature() {
    check("a,0,0,0,noun,x\n", "aa");
}

/// The lexicon keeps the feature bytes verbatim (C11); a tab in it is legal there.
#[test]
fn feature_with_tab() {
    check("a,0,0,0,noun\tx\n", "aa");
}

/// A quoted cell may span lines; the lexicon keeps it byte for byte.
#[test]
fn feature_with_quoted_line_break() {
    check("a,0,0,0,noun,\"x\ny\"\n", "aa");
}
