//! C07: a '*' cell in bigram.right/left means "no feature here" and must contribute 0.
//! The connectors look the literal string "*" up in the cost table instead, so a cost line whose
//! feature text is "*" is added at every position where a template does not apply.
#![cfg(vibrato_verif)]
use vibrato::verif_hooks::conn_cost;
use vibrato::SystemDictionaryBuilder;

fn build(dual: bool) -> vibrato::Dictionary {
    // Two templates. Position 0 is the plain value of a feature column (which may itself be the
    // string "*", e.g. an unspecified conjugation type), position 1 is an optional template that
    // does not apply to ids 2 (written as '*' by Model::write_bigram_details and
    // generate_bigram_info).
    //
    //   right id 1: features ("*",  "P1:x")
    //   right id 2: features ("N",  none)
    //   left  id 1: features ("*",  "Q1:y")
    //   left  id 2: features ("M",  none)
    let right = "1\t*,P1:x\n2\tN,*\n";
    let left = "1\t*,Q1:y\n2\tM,*\n";
    // The pair of the two real "*" values at position 0 has a learned cost.
    let cost = "*/*\t100\nN/M\t3\nP1:x/Q1:y\t5\n";
    SystemDictionaryBuilder::from_readers_with_bigram_info(
        "a,1,1,0,A\nb,2,2,0,B\n".as_bytes(),
        right.as_bytes(),
        left.as_bytes(),
        cost.as_bytes(),
        "DEFAULT 0 1 0\n".as_bytes(),
        "DEFAULT,1,1,100,*\n".as_bytes(),
        dual,
    )
    .unwrap()
}

fn check(dual: bool) {
    let d = build(dual);
    // (2,2): position 0 -> (N, M) = 3 ; position 1 -> no feature on either side = 0
    assert_eq!(conn_cost(&d, 2, 2), 3, "dual={dual}");
}

#[test]
fn star_is_zero_raw() {
    check(false);
}

#[test]
fn star_is_zero_dual() {
    check(true);
}
