//! C07 / C10: the raw (compact bigram) connector cannot evaluate connection id 65535,
//! although the builder accepts a model that defines it and a lexicon that uses it.
use vibrato::{SystemDictionaryBuilder, Tokenizer};

const N: usize = 65535; // ids 1..=65535 are defined, so 65535 is a valid u16 connection id

fn bigram_files() -> (String, String, String) {
    let mut right = String::new();
    for i in 1..=N {
        // every right id carries the single feature "R"
        right.push_str(&format!("{i}\tR\n"));
    }
    let left = "1\tL\n".to_string();
    let cost = "R/L\t7\n".to_string();
    (right, left, cost)
}

fn build(dual: bool) -> vibrato::Dictionary {
    let (right, left, cost) = bigram_files();
    // word "a": left id 1, right id 65535
    let lex = "a,1,65535,0,A\n";
    let char_def = "DEFAULT 0 1 0\n";
    let unk_def = "DEFAULT,1,1,100,*\n";
    SystemDictionaryBuilder::from_readers_with_bigram_info(
        lex.as_bytes(),
        right.as_bytes(),
        left.as_bytes(),
        cost.as_bytes(),
        char_def.as_bytes(),
        unk_def.as_bytes(),
        dual,
    )
    .expect("the builder accepts this dictionary")
}

fn tokenize_aa(dict: vibrato::Dictionary) -> Vec<(String, i32)> {
    let tokenizer = Tokenizer::new(dict);
    let mut worker = tokenizer.new_worker();
    worker.reset_sentence("aa");
    worker.tokenize();
    worker
        .token_iter()
        .map(|t| (t.surface().to_string(), t.total_cost()))
        .collect()
}

/// Reference: the dual connector handles the very same model.
#[test]
fn dual_connector_handles_id_65535() {
    let toks = tokenize_aa(build(true));
    // BOS->a : ("" , L) unlisted = 0 ; a->a : (R, L) = 7
    assert_eq!(toks, vec![("a".to_string(), 0), ("a".to_string(), 7)]);
}

/// The raw connector panics while tokenizing with the accepted dictionary.
#[test]
fn raw_connector_handles_id_65535() {
    let toks = tokenize_aa(build(false));
    assert_eq!(toks, vec![("a".to_string(), 0), ("a".to_string(), 7)]);
}

#[cfg(vibrato_verif)]
#[test]
fn raw_connector_cost_of_id_65535() {
    let dict = build(false);
    assert_eq!(vibrato::verif_hooks::num_right(&dict), 65536);
    assert_eq!(vibrato::verif_hooks::conn_cost(&dict, 65534, 1), 7);
    assert_eq!(vibrato::verif_hooks::conn_cost(&dict, 65535, 1), 7);
}
