//! C02/C03 with ignore_space and a lexicon surface that ends with a space (such dictionaries are
//! accepted; only C12 excludes them).
//!
//! When a space run starts at a reachable position p, the lattice builder jumps from p directly
//! behind the run and never visits the positions inside the run or right behind it as start
//! positions of their own. A word that was inserted into the lattice and ends inside / at the
//! end of the run (because its surface contains the spaces) is therefore a dead end: no
//! candidate is generated at its end position, although that position is reachable. The
//! cheapest sequence through that word is never considered.
use vibrato::{SystemDictionaryBuilder, Tokenizer};

fn run(lex: &str, ignore_space: bool, text: &str) -> Vec<(String, String, i32)> {
    let dict = SystemDictionaryBuilder::from_readers(
        lex.as_bytes(),
        "1 1\n0 0 0\n".as_bytes(),
        "DEFAULT 0 1 0\nSPACE 0 1 0\n0x0020 SPACE\n".as_bytes(),
        "DEFAULT,0,0,1000,*\nSPACE,0,0,1000,*\n".as_bytes(),
    )
    .unwrap();
    let tokenizer = Tokenizer::new(dict).ignore_space(ignore_space).unwrap();
    let mut worker = tokenizer.new_worker();
    worker.reset_sentence(text);
    worker.tokenize();
    worker
        .token_iter()
        .map(|t| (t.surface().to_string(), t.feature().to_string(), t.total_cost()))
        .collect()
}

fn t(s: &str, f: &str, c: i32) -> (String, String, i32) {
    (s.to_string(), f.to_string(), c)
}

const LEX: &str = "a,0,0,10,A\n\"a \",0,0,-1000,A_SP\nb,0,0,10,B\n";

/// Control: without ignore_space the cheap word "a " is used.
#[test]
fn control_without_ignore_space() {
    assert_eq!(run(LEX, false, "a b"), vec![t("a ", "A_SP", -1000), t("b", "B", -990)]);
}

/// Control: with ignore_space the word "a " is usable as long as nothing else ends before the
/// space (here "a" is not in the lexicon and DEFAULT has invoke=0), which shows that [a ][b] is
/// a sequence the tokenizer itself regards as well-formed.
#[test]
fn control_word_with_space_alone() {
    let lex = "\"a \",0,0,-1000,A_SP\nb,0,0,10,B\n";
    assert_eq!(run(lex, true, "a b"), vec![t("a ", "A_SP", -1000), t("b", "B", -990)]);
}

/// Violation: "a" (cost 10) and "a " (cost -1000) both match at position 0. [a ][b] costs -990,
/// [a]_[b] costs 20. The tokenizer reports the latter.
#[test]
fn cheaper_path_through_word_ending_with_space_is_missed() {
    assert_eq!(run(LEX, true, "a b"), vec![t("a ", "A_SP", -1000), t("b", "B", -990)]);
}

/// Same at the end of the sentence: "a " covers "a" and the first of two trailing spaces; the
/// remaining gap would begin with a space, as C01 demands. EOS is only connected to the
/// position where the space run starts.
#[test]
fn cheaper_path_before_trailing_spaces_is_missed() {
    assert_eq!(run(LEX, true, "a  "), vec![t("a ", "A_SP", -1000)]);
}
