//! C01: the raw (bigram) connector accepts 65535 rows in bigram.left/right, i.e. the
//! connection ids 0..=65535, and the builder accepts a lexicon entry that uses id 65535.
//! Looking up the feature row of id 65535 computes `right_id + 1` in u16, which overflows:
//! tokenization panics (overflow check in the test profile, slice-index panic in release).
use vibrato::{SystemDictionaryBuilder, Tokenizer};

fn bigram_rows(n: usize) -> String {
    let mut s = String::new();
    for i in 1..=n {
        s.push_str(&format!("{i}\tF\n"));
    }
    s
}

fn build(lex: &str, dual: bool) -> vibrato::Dictionary {
    let rows = bigram_rows(65535);
    SystemDictionaryBuilder::from_readers_with_bigram_info(
        lex.as_bytes(),
        rows.as_bytes(),
        rows.as_bytes(),
        "F/F\t7\n".as_bytes(),
        "DEFAULT 0 1 0\n".as_bytes(),
        "DEFAULT,0,0,100,*\n".as_bytes(),
        dual,
    )
    .expect("the builder accepts this dictionary")
}

fn run(lex: &str, dual: bool) -> Vec<(String, i32)> {
    let dict = build(lex, dual);
    let tokenizer = Tokenizer::new(dict);
    let mut worker = tokenizer.new_worker();
    worker.reset_sentence("a");
    worker.tokenize();
    worker
        .token_iter()
        .map(|t| (t.surface().to_string(), t.total_cost()))
        .collect()
}

/// Control: the largest id minus one works, and so does the largest id with the dual connector.
#[test]
fn control_id_65534_raw() {
    assert_eq!(run("a,65534,65534,1,x\n", false), vec![("a".to_string(), 1)]);
}

#[test]
fn control_id_65535_dual() {
    assert_eq!(run("a,65535,65535,1,x\n", true), vec![("a".to_string(), 1)]);
}

/// Violation: accepted dictionary, one-character sentence, panic in tokenize().
#[test]
fn id_65535_raw_left() {
    // BOS(right 0) -> a(left 65535): left_feature_ids(65535)
    assert_eq!(run("a,65535,1,1,x\n", false), vec![("a".to_string(), 1)]);
}

#[test]
fn id_65535_raw_right() {
    // a(right 65535) -> EOS(left 0): right_feature_ids(65535)
    assert_eq!(run("a,1,65535,1,x\n", false), vec![("a".to_string(), 1)]);
}
