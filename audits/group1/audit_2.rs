//! C02 (all connector kinds): the dual connector pre-sums the feature templates it moves into
//! its matrix part and stores the sum as i16, *clamping* it. bigram.cost values are parsed as
//! i32, so a model whose matrix-part sum leaves the i16 range is accepted, but the connection
//! cost used by the dual connector is then different from the sum of the bigram costs (and from
//! what the raw connector returns for the very same three files). The reported path is then not
//! a minimum-cost path and total_cost is not the accumulated cost.
//!
//! Nine templates are used so that exactly one template goes to the matrix part (eight stay in
//! the raw part). All templates are built alike, so it does not matter which one is chosen.
use vibrato::{SystemDictionaryBuilder, Tokenizer};

const T: usize = 9;

fn files() -> (String, String, String) {
    let row = |p: &str| (0..T).map(|i| format!("{p}{i}")).collect::<Vec<_>>().join(",");
    // id 1: word "a", id 2: word "aa"
    let right = format!("1\t{}\n2\t{}\n", row("R"), row("P"));
    let left = format!("1\t{}\n2\t{}\n", row("L"), row("Q"));
    let mut cost = String::new();
    for i in 0..T {
        cost.push_str(&format!("R{i}/L{i}\t40000\n")); // a -> a : 9 * 40000 = 360000
        cost.push_str(&format!("/Q{i}\t19800\n")); // BOS -> aa : 9 * 19800 = 178200
        cost.push_str(&format!("P{i}/\t19800\n")); // aa -> EOS : 9 * 19800 = 178200
    }
    (right, left, cost)
}

fn run(dual: bool) -> Vec<(String, i32)> {
    let (right, left, cost) = files();
    let dict = SystemDictionaryBuilder::from_readers_with_bigram_info(
        "a,1,1,0,A\naa,2,2,0,AA\n".as_bytes(),
        right.as_bytes(),
        left.as_bytes(),
        cost.as_bytes(),
        "DEFAULT 0 1 0\n".as_bytes(),
        "DEFAULT,0,0,0,*\n".as_bytes(),
        dual,
    )
    .unwrap();
    let tokenizer = Tokenizer::new(dict);
    let mut worker = tokenizer.new_worker();
    worker.reset_sentence("aa");
    worker.tokenize();
    worker
        .token_iter()
        .map(|t| (t.surface().to_string(), t.total_cost()))
        .collect()
}

// Candidate paths of "aa" (invoke=0, so no unknown word competes):
//   [a][a] : BOS->a 0, a->a 360000, a->EOS 0         = 360000
//   [aa]   : BOS->aa 178200, aa->EOS 178200 (not part of total_cost of the token) = 356400
// The minimum is [aa]; its token has total_cost 178200.

#[test]
fn raw_connector_is_right() {
    assert_eq!(run(false), vec![("aa".to_string(), 178200)]);
}

#[test]
fn dual_connector_reports_a_non_minimal_path() {
    // Observed: [("a", 0), ("a", 352767)]: 8 * 40000 + clamp(40000 -> 32767)
    assert_eq!(run(true), vec![("aa".to_string(), 178200)]);
}
