//! C06: a valid id permutation on a dictionary with a raw (bigram) connector that has
//! 65536 right ids makes tokenization panic, while the unmapped dictionary tokenizes.
use std::fmt::Write;

use vibrato::{Dictionary, SystemDictionaryBuilder, Tokenizer};

const N: usize = 65535; // rows of bigram.right => right ids 0..=65535

fn build(dual: bool) -> Dictionary {
    // Right id 1 has feature R1, all others R2. Left id 1 has L1.
    let mut right = String::new();
    for i in 1..=N {
        writeln!(right, "{i}\t{}", if i == 1 { "R1" } else { "R2" }).unwrap();
    }
    let left = "1\tL1\n2\tL2\n";
    let cost = "R1/L1\t7\nR2/L1\t100\nR1/L2\t1\nR2/L2\t3\n";
    let lex = "a,1,1,10,A\n";
    let char_def = "DEFAULT 0 1 0\n";
    let unk_def = "DEFAULT,2,2,1000,UNK\n";
    SystemDictionaryBuilder::from_readers_with_bigram_info(
        lex.as_bytes(),
        right.as_bytes(),
        left.as_bytes(),
        cost.as_bytes(),
        char_def.as_bytes(),
        unk_def.as_bytes(),
        dual,
    )
    .unwrap()
}

fn tokens(dict: Dictionary, s: &str) -> (Vec<(String, String, i16, i32)>, Dictionary) {
    let tokenizer = Tokenizer::new(dict);
    let out = {
        let mut w = tokenizer.new_worker();
        w.reset_sentence(s);
        w.tokenize();
        w.token_iter()
            .map(|t| {
                (
                    t.surface().to_string(),
                    t.feature().to_string(),
                    t.word_cost(),
                    t.total_cost(),
                )
            })
            .collect()
    };
    // no accessor gives the dictionary back; rebuild by the caller if needed
    (out, {
        // Tokenizer owns the dictionary; serialize it to hand a copy back.
        let mut buf = vec![];
        tokenizer.dictionary().write(&mut buf).unwrap();
        Dictionary::read(buf.as_slice()).unwrap()
    })
}

/// right-id permutation swapping 1 and 65535, identity on left ids.
fn swap_maps() -> (Vec<u16>, Vec<u16>) {
    let lmap: Vec<u16> = vec![1, 2];
    // i-th item (1-origin) is the old id that becomes new id i.
    let mut rmap: Vec<u16> = (1..=N as u16).collect();
    rmap[0] = N as u16; // new id 1 <- old id 65535
    rmap[N - 1] = 1; // new id 65535 <- old id 1
    (lmap, rmap)
}

#[test]
fn raw_connector_mapping_to_id_65535() {
    let dict = build(false);
    let (before, dict) = tokens(dict, "aa");
    println!("before mapping: {before:?}");
    assert_eq!(before.len(), 2);

    let (lmap, rmap) = swap_maps();
    let dict = dict
        .map_connection_ids_from_iter(lmap, rmap)
        .expect("a valid permutation must be accepted");
    let r = std::panic::catch_unwind(move || tokens(dict, "aa").0);
    match r {
        Ok(after) => assert_eq!(before, after, "C06: tokens must not change"),
        Err(_) => panic!("C06 VIOLATION: tokenization panicked after a valid id mapping"),
    }
}

/// The same scenario with the dual connector works, which shows the expectation is satisfiable.
#[test]
fn dual_connector_mapping_to_id_65535() {
    let dict = build(true);
    let (before, dict) = tokens(dict, "aa");
    let (lmap, rmap) = swap_maps();
    let dict = dict.map_connection_ids_from_iter(lmap, rmap).unwrap();
    let (after, _) = tokens(dict, "aa");
    assert_eq!(before, after);
}
