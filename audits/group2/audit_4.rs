//! C13 (last sentence): a raw-connector dictionary built from a bigram.right with more than
//! 65535 rows is accepted, but its reorder statistics name an id that is not a u16, so the
//! statistics cannot be handed to map_connection_ids_from_iter (the `map` tool fails to parse
//! them), and in fact no mapping at all is accepted for this dictionary.
use std::fmt::Write;

use vibrato::{SystemDictionaryBuilder, Tokenizer};

#[test]
fn reorder_output_of_a_raw_dictionary_with_65536_rows_is_not_mappable() {
    let mut right = String::new();
    for i in 1..=65536usize {
        writeln!(right, "{i}\tR").unwrap();
    }
    let dict = SystemDictionaryBuilder::from_readers_with_bigram_info(
        "a,1,1,0,A\n".as_bytes(),
        right.as_bytes(),
        "1\tL\n".as_bytes(),
        "R/L\t1\n".as_bytes(),
        "DEFAULT 0 1 0\n".as_bytes(),
        "DEFAULT,1,1,0,U\n".as_bytes(),
        false,
    )
    .expect("the builder accepts the dictionary");

    let tokenizer = Tokenizer::new(dict);
    let mut w = tokenizer.new_worker();
    w.init_connid_counter();
    w.reset_sentence("a");
    w.tokenize();
    w.update_connid_counts();
    let (l, r) = w.compute_connid_probs();
    println!("{} left ids, {} right ids listed", l.len(), r.len());

    // What the `map` tool does with the *.rmap written by `reorder`: parse column 0 as u16.
    let rmap: Result<Vec<u16>, _> = r.iter().map(|(i, _)| format!("{i}").parse::<u16>()).collect();
    let lmap: Vec<u16> = l.iter().map(|(i, _)| *i as u16).collect();
    match rmap {
        Err(e) => panic!("C13 VIOLATION: the statistics are not accepted by the map step: {e}"),
        Ok(rmap) => {
            let mut buf = vec![];
            tokenizer.dictionary().write(&mut buf).unwrap();
            let d = vibrato::Dictionary::read(buf.as_slice()).unwrap();
            d.map_connection_ids_from_iter(lmap, rmap).unwrap();
        }
    }
}
