//! C13: with ignore_space(true) and a sentence ending with a space, the connection
//! evaluations made for EOS are not counted (they are looked up at the wrong position).
use vibrato::{SystemDictionaryBuilder, Tokenizer};

fn dict() -> vibrato::Dictionary {
    // a: left 1 right 1 ; b: left 2 right 2
    let lex = "a,1,1,0,A\nb,2,2,0,B\n";
    let matrix = "3 3\n";
    let char_def = "DEFAULT 0 1 0\nSPACE 0 1 0\n0x0020 SPACE\n";
    let unk_def = "DEFAULT,0,0,1000,UNK\nSPACE,0,0,1000,SP\n";
    SystemDictionaryBuilder::from_readers(
        lex.as_bytes(),
        matrix.as_bytes(),
        char_def.as_bytes(),
        unk_def.as_bytes(),
    )
    .unwrap()
}

fn stats(ignore_space: bool, sentences: &[&str]) -> (Vec<usize>, Vec<usize>) {
    let tokenizer = Tokenizer::new(dict()).ignore_space(ignore_space).unwrap();
    let mut w = tokenizer.new_worker();
    w.init_connid_counter();
    for s in sentences {
        w.reset_sentence(s);
        w.tokenize();
        let toks: Vec<_> = w.token_iter().map(|t| t.surface().to_string()).collect();
        println!("ignore_space={ignore_space} {s:?} -> {toks:?}");
        w.update_connid_counts();
    }
    let (l, r) = w.compute_connid_probs();
    println!("  left: {l:?}\n  right: {r:?}");
    (
        l.into_iter().map(|(i, _)| i).collect(),
        r.into_iter().map(|(i, _)| i).collect(),
    )
}

#[test]
fn trailing_space_eos_connections_are_not_counted() {
    // Lattice of "b " with ignore_space: BOS -> b (1 evaluation: right 0 / left 2),
    // b -> EOS (1 evaluation: right 2 / left 0).  So right id 2 took part in one
    // evaluation per sentence: 3 in total.
    // Lattice of "a": BOS -> a, BOS -> unk, {a, unk} -> EOS: right id 1 took part once.
    // Right id 2 (3 evaluations) must be listed before right id 1 (1 evaluation).
    let (_, r) = stats(true, &["b ", "b ", "b ", "a"]);
    assert_eq!(r, vec![2, 1], "C13 VIOLATION: right ids are not ordered by frequency");
}

#[test]
fn same_sentences_without_trailing_space() {
    let (_, r) = stats(true, &["b", "b", "b", "a"]);
    assert_eq!(r, vec![2, 1]);
}
