//! C06 (builds with overflow checks, e.g. the test profile): the identity permutation on a
//! dual-connector dictionary whose matrix part has 65536 distinct left classes panics.
use std::fmt::Write;

use vibrato::{Dictionary, SystemDictionaryBuilder, Tokenizer};

const N: usize = 65535;

fn build() -> Dictionary {
    // Nine templates: eight go to the raw part, one stays in the matrix part.
    // Every left id has its own feature in every template, so whichever template stays in
    // the matrix part, all 65535 left ids (+ BOS) are distinct matrix classes.
    let mut left = String::new();
    let mut cost = String::new();
    for i in 1..=N {
        let f = format!("f{i}");
        writeln!(left, "{i}\t{f},{f},{f},{f},{f},{f},{f},{f},{f}").unwrap();
        writeln!(cost, "R/{f}\t{}", i % 7).unwrap();
    }
    let right = "1\tR,R,R,R,R,R,R,R,R\n";
    let lex = "a,1,1,10,A\nb,2,1,5,B\n";
    let char_def = "DEFAULT 0 1 0\n";
    let unk_def = "DEFAULT,3,1,1000,UNK\n";
    SystemDictionaryBuilder::from_readers_with_bigram_info(
        lex.as_bytes(),
        right.as_bytes(),
        left.as_bytes(),
        cost.as_bytes(),
        char_def.as_bytes(),
        unk_def.as_bytes(),
        true,
    )
    .unwrap()
}

fn tokens(dict: Dictionary, s: &str) -> (Vec<(String, String, i32)>, Dictionary) {
    let tokenizer = Tokenizer::new(dict);
    let out = {
        let mut w = tokenizer.new_worker();
        w.reset_sentence(s);
        w.tokenize();
        w.token_iter()
            .map(|t| (t.surface().to_string(), t.feature().to_string(), t.total_cost()))
            .collect()
    };
    let mut buf = vec![];
    tokenizer.dictionary().write(&mut buf).unwrap();
    (out, Dictionary::read(buf.as_slice()).unwrap())
}

#[test]
fn dual_connector_identity_mapping_with_65536_matrix_classes() {
    let dict = build();
    let (before, dict) = tokens(dict, "abxa");
    println!("before mapping: {before:?}");
    let lmap: Vec<u16> = (1..=N as u16).collect();
    let rmap: Vec<u16> = vec![1];
    let r = std::panic::catch_unwind(move || {
        let dict = dict
            .map_connection_ids_from_iter(lmap, rmap)
            .expect("the identity permutation is valid");
        tokens(dict, "abxa").0
    });
    match r {
        Ok(after) => assert_eq!(before, after, "C06: tokens must not change"),
        Err(_) => panic!("C06 VIOLATION: the identity id mapping panicked"),
    }
}
