//! C14: "every id lies inside the emitted matrix dimensions ... The emitted files always
//! compile into a dictionary" (domain: ... optional user lexicons for which training succeeds),
//! C16: "for every pair of ids".
//!
//! Nothing bounds the number of merged connection classes to what the file formats carry.
//! Every user-lexicon row with a not-yet-seen bigram feature tuple opens a new class (rows read
//! after training are never merged by the zero-weight filter). With exactly 65535 right classes
//! every id still fits u16, the matrix would be only 65536 x 4, and yet
//!   * matrix.def gets the header `65536 4`, which MatrixConnector parses as u16 -> error;
//!   * the bigram files do compile (65536 right ids), but RawConnector::cost(65535, _)
//!     computes `right_id + 1` in u16 -> overflow panic while tokenizing.
//! With one more row, lex-style ids > 65535 are written, which no reader accepts.
//! Build with RUSTFLAGS="--cfg vibrato_verif" for the last test only.
use vibrato::trainer::{Corpus, Model, Trainer, TrainerConfig};
use vibrato::{SystemDictionaryBuilder, Tokenizer};

const CHAR: &str = "DEFAULT 0 1 0\n";
const UNK: &str = "DEFAULT,0,0,0,U,u\n";
// The right template looks at column 1, which is the same for all user rows: only the number of
// right ids (left-context classes) grows, the number of left ids stays tiny.
const FEAT: &str = "UNIGRAM U:%F[0]\nBIGRAM B:%L[0]/%R[1]\n";
const REWRITE: &str = "[unigram rewrite]\n[left rewrite]\n[right rewrite]\n";
const LEX: &str = "a,0,0,0,N,x\na,0,0,0,M,x\nb,0,0,0,V,y\nc,0,0,0,W,z\n";
const CORPUS: &str = "b\tV,y\na\tN,x\nEOS\nc\tW,z\na\tM,x\nEOS\nb\tV,y\na\tN,x\nc\tW,z\na\tM,x\nEOS\n";

fn trained_model_bytes() -> Vec<u8> {
    let config = TrainerConfig::from_readers(
        LEX.as_bytes(),
        CHAR.as_bytes(),
        UNK.as_bytes(),
        FEAT.as_bytes(),
        REWRITE.as_bytes(),
    )
    .unwrap();
    let trainer = Trainer::new(config).unwrap().regularization_cost(0.01).max_iter(30);
    let model = trainer.train(Corpus::from_reader(CORPUS.as_bytes()).unwrap()).unwrap();
    let mut bytes = vec![];
    model.write_model(&mut bytes).unwrap();
    bytes
}

struct Files {
    lex: Vec<u8>,
    matrix: Vec<u8>,
    unk: Vec<u8>,
    user: Vec<u8>,
    left: Vec<u8>,
    right: Vec<u8>,
    cost: Vec<u8>,
}

fn generate(model: &mut Model) -> Files {
    let (mut lex, mut matrix, mut unk, mut user) = (vec![], vec![], vec![], vec![]);
    model.write_dictionary(&mut lex, &mut matrix, &mut unk, &mut user).unwrap();
    let (mut left, mut right, mut cost) = (vec![], vec![], vec![]);
    model.write_bigram_details(&mut left, &mut right, &mut cost).unwrap();
    Files { lex, matrix, unk, user, left, right, cost }
}

/// Adds a user lexicon such that the model has exactly `target` right classes.
fn files_with_right_classes(target: usize) -> Files {
    let bytes = trained_model_bytes();
    let mut model = Model::read_model(&*bytes).unwrap();
    let base = generate(&mut model);
    let header = String::from_utf8_lossy(&base.matrix).lines().next().unwrap().to_string();
    let num_right: usize = header.split(' ').next().unwrap().parse().unwrap();
    let existing = num_right - 1;
    let mut user = String::new();
    for i in 0..target - existing {
        user.push_str(&format!("w{i},0,0,0,F{i},x\n"));
    }
    let mut model = Model::read_model(&*bytes).unwrap();
    model.read_user_lexicon(user.as_bytes()).unwrap();
    generate(&mut model)
}

fn first_line(b: &[u8]) -> String {
    String::from_utf8_lossy(b).lines().next().unwrap().to_string()
}
fn last_line(b: &[u8]) -> String {
    String::from_utf8_lossy(b).lines().last().unwrap().to_string()
}

#[test]
fn a_65534_classes_is_fine() {
    let f = files_with_right_classes(65534);
    println!("matrix.def header: {}", first_line(&f.matrix));
    println!("last user.csv row: {}", last_line(&f.user));
    let d = SystemDictionaryBuilder::from_readers(&*f.lex, &*f.matrix, CHAR.as_bytes(), &*f.unk)
        .unwrap();
    d.reset_user_lexicon_from_reader(Some(&*f.user)).unwrap();
}

#[test]
fn b_65535_classes_matrix_route() {
    let f = files_with_right_classes(65535);
    println!("matrix.def header: {}", first_line(&f.matrix));
    println!("last user.csv row: {}", last_line(&f.user));
    let res = SystemDictionaryBuilder::from_readers(&*f.lex, &*f.matrix, CHAR.as_bytes(), &*f.unk);
    if let Err(e) = &res {
        println!("from_readers: {e}");
    }
    let d = res.expect("emitted lex.csv/matrix.def/unk.def must compile");
    d.reset_user_lexicon_from_reader(Some(&*f.user)).expect("emitted user.csv must load");
}

#[test]
fn c_65535_classes_bigram_route() {
    let f = files_with_right_classes(65535);
    println!("last bigram.right row: {}", last_line(&f.right));
    println!("last user.csv row: {}", last_line(&f.user));
    let d = SystemDictionaryBuilder::from_readers_with_bigram_info(
        &*f.lex, &*f.right, &*f.left, &*f.cost, CHAR.as_bytes(), &*f.unk, false,
    )
    .expect("bigram files compile");
    let d = d.reset_user_lexicon_from_reader(Some(&*f.user)).expect("user.csv loads");
    let last = last_line(&f.user);
    let surface = last.split(',').next().unwrap().to_string();
    let tokenizer = Tokenizer::new(d);
    let mut worker = tokenizer.new_worker();
    // The user word with right id 65535 followed by another word.
    worker.reset_sentence(format!("{surface}a"));
    worker.tokenize(); // panics: attempt to add with overflow (raw_connector.rs, right_id + 1)
    assert!(worker.num_tokens() >= 1);
}

#[test]
fn c2_65535_classes_bigram_route_dual() {
    let f = files_with_right_classes(65535);
    let d = SystemDictionaryBuilder::from_readers_with_bigram_info(
        &*f.lex, &*f.right, &*f.left, &*f.cost, CHAR.as_bytes(), &*f.unk, true,
    )
    .expect("bigram files compile");
    let d = d.reset_user_lexicon_from_reader(Some(&*f.user)).expect("user.csv loads");
    let last = last_line(&f.user);
    let surface = last.split(',').next().unwrap().to_string();
    let tokenizer = Tokenizer::new(d);
    let mut worker = tokenizer.new_worker();
    worker.reset_sentence(format!("{surface}a"));
    worker.tokenize();
    assert!(worker.num_tokens() >= 1);
}

#[test]
fn d_65536_classes() {
    let f = files_with_right_classes(65536);
    println!("matrix.def header: {}", first_line(&f.matrix));
    println!("last user.csv row: {}", last_line(&f.user));
    let res = SystemDictionaryBuilder::from_readers(&*f.lex, &*f.matrix, CHAR.as_bytes(), &*f.unk);
    if let Err(e) = &res {
        println!("from_readers (matrix): {e}");
    }
    let res2 = SystemDictionaryBuilder::from_readers_with_bigram_info(
        &*f.lex, &*f.right, &*f.left, &*f.cost, CHAR.as_bytes(), &*f.unk, false,
    )
    .and_then(|d| d.reset_user_lexicon_from_reader(Some(&*f.user)));
    if let Err(e) = &res2 {
        println!("bigram route + user.csv: {e}");
    }
    assert!(res.is_ok() && res2.is_ok(), "emitted files do not compile");
}
