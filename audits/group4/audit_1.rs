//! C17: "$n replaced by the n-th input feature (or '*' if absent)".
//! `$0` (and any `$n` whose n does not fit usize) in a rewrite.def output makes
//! TrainerConfig::from_readers panic instead of yielding '*' (or an error).
use vibrato::trainer::TrainerConfig;

const LEX: &str = "a,0,0,0,x,y\n";
const CHAR: &str = "DEFAULT 0 1 0\n";
const UNK: &str = "DEFAULT,0,0,0,x,y\n";
const FEAT: &str = "UNIGRAM U:%F[0]\nBIGRAM B:%L[0]/%R[0]\n";

fn load(rewrite: &str) -> Result<TrainerConfig, vibrato::errors::VibratoError> {
    TrainerConfig::from_readers(
        LEX.as_bytes(),
        CHAR.as_bytes(),
        UNK.as_bytes(),
        FEAT.as_bytes(),
        rewrite.as_bytes(),
    )
}

#[test]
fn sanity_dollar_one_is_fine() {
    assert!(load("[unigram rewrite]\n*,* $1,$2\n[left rewrite]\n*,* $1,$2\n[right rewrite]\n*,* $1,$2\n").is_ok());
}

#[test]
fn dollar_zero_must_not_panic() {
    // 0-th feature does not exist => '*' by the property text; at least no panic.
    let r = std::panic::catch_unwind(|| {
        load("[unigram rewrite]\n*,* $0,$2\n[left rewrite]\n*,* $1,$2\n[right rewrite]\n*,* $1,$2\n").is_ok()
    });
    assert!(r.is_ok(), "TrainerConfig::from_readers panicked on `$0`");
}

#[test]
fn dollar_huge_must_not_panic() {
    let r = std::panic::catch_unwind(|| {
        load("[unigram rewrite]\n*,* $99999999999999999999,$2\n[left rewrite]\n*,* $1,$2\n[right rewrite]\n*,* $1,$2\n").is_ok()
    });
    assert!(r.is_ok(), "TrainerConfig::from_readers panicked on `$99999999999999999999`");
}

/// C18: same kind of unchecked parse in feature.def (`%F[i]`, `%L[i]`, `%R[i]`).
#[test]
fn template_index_huge_must_not_panic() {
    let r = std::panic::catch_unwind(|| {
        TrainerConfig::from_readers(
            LEX.as_bytes(),
            CHAR.as_bytes(),
            UNK.as_bytes(),
            "UNIGRAM U:%F[99999999999999999999]\nBIGRAM B:%L[0]/%R[0]\n".as_bytes(),
            "[unigram rewrite]\n[left rewrite]\n[right rewrite]\n".as_bytes(),
        )
        .is_ok()
    });
    assert!(r.is_ok(), "TrainerConfig::from_readers panicked on `%F[99999999999999999999]`");
}
