//! C16 (last sentence) / C18: a feature value containing '/' (e.g. IPADIC's own row
//! `/,…,記号,一般,*,*,*,*,/,/,/`) ends up inside a bigram feature string. `bigram.cost`
//! is written as `{left}/{right}\t{cost}` without any escaping, and the reader splits on
//! '/' and demands exactly two parts, so the emitted bigram files cannot be compiled.
use vibrato::trainer::{Corpus, Trainer, TrainerConfig};
use vibrato::SystemDictionaryBuilder;

const CHAR: &str = "DEFAULT 0 1 0\n";
const UNK: &str = "DEFAULT,0,0,0,U,u\n";
const FEAT: &str = "UNIGRAM U:%F[0]\nBIGRAM B:%L[0]/%R[0]\n";
const REWRITE: &str = "[unigram rewrite]\n[left rewrite]\n[right rewrite]\n";

fn run(lex: &str, corpus: &str) -> (Vec<u8>, Vec<u8>, Vec<u8>, Vec<u8>, Vec<u8>, Vec<u8>) {
    let config = TrainerConfig::from_readers(
        lex.as_bytes(),
        CHAR.as_bytes(),
        UNK.as_bytes(),
        FEAT.as_bytes(),
        REWRITE.as_bytes(),
    )
    .unwrap();
    let trainer = Trainer::new(config).unwrap().regularization_cost(0.01).max_iter(50);
    let corpus = Corpus::from_reader(corpus.as_bytes()).unwrap();
    let mut model = trainer.train(corpus).unwrap();
    let (mut lexo, mut mat, mut unk, mut user) = (vec![], vec![], vec![], vec![]);
    model.write_dictionary(&mut lexo, &mut mat, &mut unk, &mut user).unwrap();
    let (mut l, mut r, mut c) = (vec![], vec![], vec![]);
    model.write_bigram_details(&mut l, &mut r, &mut c).unwrap();
    (lexo, mat, unk, l, r, c)
}

#[test]
fn slash_in_feature_value_breaks_bigram_cost() {
    // Two readings of "a" so that the bigram features carry weight.
    let lex = "a,0,0,0,N/1,x\na,0,0,0,M,x\nb,0,0,0,V,y\nc,0,0,0,W,z\n";
    let corpus = "b\tV,y\na\tN/1,x\nEOS\nc\tW,z\na\tM,x\nEOS\nb\tV,y\na\tN/1,x\nc\tW,z\na\tM,x\nEOS\n";
    let (lexo, mat, unk, l, r, c) = run(lex, corpus);
    println!("--- bigram.cost ---\n{}", String::from_utf8_lossy(&c));
    println!("--- bigram.left ---\n{}", String::from_utf8_lossy(&l));
    println!("--- bigram.right ---\n{}", String::from_utf8_lossy(&r));

    // The matrix route works.
    SystemDictionaryBuilder::from_readers(&*lexo, &*mat, CHAR.as_bytes(), &*unk).unwrap();

    // The bigram route must work as well (C16: "A dictionary compiled from the bigram files
    // can therefore stand in for the matrix-based one").
    for dual in [false, true] {
        let res = SystemDictionaryBuilder::from_readers_with_bigram_info(
            &*lexo, &*r, &*l, &*c, CHAR.as_bytes(), &*unk, dual,
        );
        if let Err(e) = &res {
            println!("dual={dual}: {e}");
        }
        assert!(res.is_ok(), "emitted bigram files do not compile (dual={dual})");
    }
}
