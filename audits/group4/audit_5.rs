//! C14: "one unk.def row per seed unknown entry ... The emitted files always compile into a
//! dictionary."
//! write_dictionary quotes the surface column of lex.csv/user.csv (utils::quote_csv_cell) but
//! prints the category name of unk.def verbatim. char.def accepts any whitespace-free token as a
//! category name, and the seed unk.def (a CSV file) can name it with CSV quoting; the emitted
//! unk.def loses the quoting and does not parse any more.
use vibrato::trainer::{Corpus, Trainer, TrainerConfig};
use vibrato::SystemDictionaryBuilder;

const CHAR: &str = "DEFAULT 0 1 0\nLATIN,SMALL 1 1 0\n0x0061..0x007A LATIN,SMALL\n";
const UNK: &str = "DEFAULT,0,0,0,U,u\n\"LATIN,SMALL\",0,0,0,A,a\n";
const FEAT: &str = "UNIGRAM U:%F[0]\nBIGRAM B:%L[0]/%R[0]\n";
const REWRITE: &str = "[unigram rewrite]\n[left rewrite]\n[right rewrite]\n";
const LEX: &str = "京,0,0,0,N,x\n都,0,0,0,V,y\n";
const CORPUS: &str = "京\tN,x\n都\tV,y\nEOS\nabc\tA,a\n京\tN,x\nEOS\n";

#[test]
fn category_name_is_not_quoted_in_emitted_unk_def() {
    // The seed files are accepted as a dictionary definition ...
    SystemDictionaryBuilder::from_readers(
        LEX.as_bytes(),
        "1 1\n0 0 0\n".as_bytes(),
        CHAR.as_bytes(),
        UNK.as_bytes(),
    )
    .expect("seed files are valid");
    // ... and as a training configuration.
    let config = TrainerConfig::from_readers(
        LEX.as_bytes(),
        CHAR.as_bytes(),
        UNK.as_bytes(),
        FEAT.as_bytes(),
        REWRITE.as_bytes(),
    )
    .unwrap();
    let trainer = Trainer::new(config).unwrap().max_iter(20);
    let mut model = trainer.train(Corpus::from_reader(CORPUS.as_bytes()).unwrap()).unwrap();
    let (mut lex, mut mat, mut unk, mut user) = (vec![], vec![], vec![], vec![]);
    model.write_dictionary(&mut lex, &mut mat, &mut unk, &mut user).unwrap();
    println!("--- emitted unk.def ---\n{}", String::from_utf8_lossy(&unk));
    let res = SystemDictionaryBuilder::from_readers(&*lex, &*mat, CHAR.as_bytes(), &*unk);
    if let Err(e) = &res {
        println!("from_readers: {e}");
    }
    assert!(res.is_ok(), "emitted unk.def does not compile");
}
