//! C16: the connection cost obtained from bigram.left/right/cost must agree with matrix.def
//! up to K+1 for every id pair.
//!
//! The bigram files are ambiguous in two ways:
//!  (a) a bigram feature dropped by training is printed as `*` in bigram.left/right, but `*` is
//!      also a perfectly ordinary expanded feature string (MeCab-style `BIGRAM B:%L[1]/%R[1]`
//!      has an unprefixed right template, and `*` is the most common feature value). The reader
//!      looks the cell up by text, so the dropped position inherits the costs of the real `*`.
//!  (b) an empty feature value expands to the empty string, which is the text reserved for
//!      BOS/EOS in bigram.cost (`B:x/<TAB>cost`) and in the reader's id maps.
//! Build with RUSTFLAGS="--cfg vibrato_verif" (uses verif_hooks::conn_cost, read-only).
use vibrato::trainer::{Corpus, Trainer, TrainerConfig};
use vibrato::verif_hooks as vh;
use vibrato::SystemDictionaryBuilder;

const CHAR: &str = "DEFAULT 0 1 0\n";
const UNK: &str = "DEFAULT,0,0,0,U,u\n";
const REWRITE: &str = "[unigram rewrite]\n[left rewrite]\n[right rewrite]\n";

/// Returns the largest |matrix - bigram| over all id pairs for the raw and the dual connector.
fn max_diff(lex: &str, feat: &str, corpus: &str) -> (i32, i32) {
    let config = TrainerConfig::from_readers(
        lex.as_bytes(),
        CHAR.as_bytes(),
        UNK.as_bytes(),
        feat.as_bytes(),
        REWRITE.as_bytes(),
    )
    .unwrap();
    let trainer = Trainer::new(config).unwrap().regularization_cost(0.01).max_iter(100);
    let corpus = Corpus::from_reader(corpus.as_bytes()).unwrap();
    let mut model = trainer.train(corpus).unwrap();
    let (mut lexo, mut mat, mut unk, mut user) = (vec![], vec![], vec![], vec![]);
    model.write_dictionary(&mut lexo, &mut mat, &mut unk, &mut user).unwrap();
    let (mut l, mut r, mut c) = (vec![], vec![], vec![]);
    model.write_bigram_details(&mut l, &mut r, &mut c).unwrap();
    println!("--- lex.csv ---\n{}", String::from_utf8_lossy(&lexo));
    println!("--- matrix.def ---\n{}", String::from_utf8_lossy(&mat));
    println!("--- bigram.left ---\n{}", String::from_utf8_lossy(&l));
    println!("--- bigram.right ---\n{}", String::from_utf8_lossy(&r));
    println!("--- bigram.cost ---\n{}", String::from_utf8_lossy(&c));

    let dm = SystemDictionaryBuilder::from_readers(&*lexo, &*mat, CHAR.as_bytes(), &*unk).unwrap();
    let mut out = vec![];
    for dual in [false, true] {
        let db = SystemDictionaryBuilder::from_readers_with_bigram_info(
            &*lexo, &*r, &*l, &*c, CHAR.as_bytes(), &*unk, dual,
        )
        .unwrap();
        assert_eq!(vh::num_left(&dm), vh::num_left(&db));
        assert_eq!(vh::num_right(&dm), vh::num_right(&db));
        let mut worst = 0;
        for rid in 0..vh::num_right(&dm) as u16 {
            for lid in 0..vh::num_left(&dm) as u16 {
                let a = vh::conn_cost(&dm, rid, lid);
                let b = vh::conn_cost(&db, rid, lid);
                if (a - b).abs() > 2 {
                    println!("dual={dual} right_id={rid} left_id={lid}: matrix.def={a} bigram={b}");
                }
                worst = worst.max((a - b).abs());
            }
        }
        out.push(worst);
    }
    (out[0], out[1])
}

/// (a) K = 1 template, so the allowed difference is K + 1 = 2.
#[test]
fn dropped_feature_star_collides_with_literal_star() {
    // a1/a2: two readings of "a" told apart only by the previous word, so that the bigram
    // features (B:z,*) and (B:y,q) get weight. "d" never occurs in the corpus: its right feature
    // "bar" gets no weight, is dropped by training and is shown as `*` in bigram.left.
    let lex = "a,0,0,0,N,*\na,0,0,0,M,q\nb,0,0,0,V,y\nc,0,0,0,W,z\nd,0,0,0,X,bar\n";
    let feat = "UNIGRAM U:%F[0]\nBIGRAM B:%L[1]/%R[1]\n";
    let corpus = "c\tW,z\na\tN,*\nEOS\nb\tV,y\na\tM,q\nEOS\nc\tW,z\na\tN,*\nb\tV,y\na\tM,q\nEOS\n";
    let (raw, dual) = max_diff(lex, feat, corpus);
    assert!(raw <= 2 && dual <= 2, "max |matrix - bigram|: raw={raw} dual={dual}, allowed K+1=2");
}

/// (b) K = 1 template, allowed difference 2.
#[test]
fn empty_feature_value_collides_with_bos_eos() {
    // "a" has an empty second feature value; the right feature of `B:%L[1]/%R[1]` is "".
    // b1 (V,y) precedes a, b2 (V2,y2) ends a sentence.
    let lex = "a,0,0,0,N,\na,0,0,0,M,q\nb,0,0,0,V,y\nb,0,0,0,V2,y2\nc,0,0,0,W,z\n";
    let feat = "UNIGRAM U:%F[0]\nBIGRAM B:%L[1]/%R[1]\n";
    let corpus = "b\tV,y\na\tN,\nc\tW,z\nEOS\nc\tW,z\na\tM,q\nb\tV2,y2\nEOS\nb\tV,y\na\tN,\nb\tV2,y2\nEOS\nc\tW,z\na\tM,q\nc\tW,z\nEOS\n";
    let (raw, dual) = max_diff(lex, feat, corpus);
    assert!(raw <= 2 && dual <= 2, "max |matrix - bigram|: raw={raw} dual={dual}, allowed K+1=2");
}
